#!/bin/bash
# MANIFEST.setup_cmd: build the harness once (warms the Go build cache), offline.
cd /verif && ./build.sh || exit 2
