#!/usr/bin/env python3
"""Generate /verif/sim/go.mod from /repo/go.mod (DESIGN.md §2.1) and copy go.sum."""
import os, re, shutil, sys
REPO = os.environ.get("VERIF_REPO", "/repo")
VERIF = os.path.dirname(os.path.dirname(os.path.abspath(__file__)))
src = open(os.path.join(REPO, "go.mod")).read()
if not re.search(r"^module github.com/crossplane/crossplane\s*$", src, re.M):
    print("gen_gomod: unexpected module line", file=sys.stderr); sys.exit(2)
out = re.sub(r"^module .*$", "module github.com/crossplane/crossplane/verifsim", src, count=1, flags=re.M)
out = re.sub(r"^go [0-9.]+\s*$", "go 1.26.8", out, count=1, flags=re.M)
out = re.sub(r"^toolchain .*\n", "", out, flags=re.M)
out += "\nrequire github.com/crossplane/crossplane v0.0.0\n\nreplace github.com/crossplane/crossplane => %s\n" % REPO
out += "\nrequire github.com/anishathalye/porcupine v1.3.0\n"
OUTD = os.environ.get("VERIF_OUTDIR", os.path.join(VERIF, "out"))
os.makedirs(os.path.join(OUTD, "gomod"), exist_ok=True)
dst = os.path.join(OUTD, "gomod", "go.mod")
if not os.path.exists(dst) or open(dst).read() != out:
    open(dst, "w").write(out)
# the module root needs a go.mod; builds use -modfile so its content does not matter
root = os.path.join(VERIF, "sim", "go.mod")
if not os.path.exists(root):
    open(root, "w").write(out)
# go.sum: repo's plus the extra modules the harness needs
sumsrc = open(os.path.join(REPO, "go.sum")).read()
extra = os.path.join(VERIF, "sim", "extra.sum")
if os.path.exists(extra):
    sumsrc += open(extra).read()
dsts = os.path.join(OUTD, "gomod", "go.sum")
if not os.path.exists(dsts) or open(dsts).read() != sumsrc:
    open(dsts, "w").write(sumsrc)
