#!/bin/bash
# usage: detdiff.sh PROP NRUNS NPROCS  — run NPROCS processes of NRUNS runs each, full traces, diff.
P=$1; N=${2:-20}; K=${3:-24}; D=/verif/out/detdiff; rm -rf $D; mkdir -p $D
for i in $(seq 1 $K); do
  G=$(( (i % 3 == 0) ? 1 : ((i % 3 == 1) ? 4 : 16) ))
  GODEBUG=randautoseed=0 GOMAXPROCS=$G VERIF_PROP=$P VERIF_SEED=${SEED:-7} VERIF_HASHES=$N VERIF_DUMP=all /verif/out/bin/harness.test -test.run TestWorker > $D/$i.txt 2>&1 &
done
wait
md5sum $D/*.txt | awk '{print $1}' | sort | uniq -c
ref=$D/1.txt
for i in $(seq 2 $K); do if ! cmp -s $ref $D/$i.txt; then echo "DIFF 1 vs $i"; diff $ref $D/$i.txt | head -${LINES_:-30}; break; fi; done
