#!/bin/bash
# usage: mut.sh <mutation-dir> <PROP> <seeded-id> [budget_s]
# 1. verifies the mutation in a scratch worktree (demo passes without, fails with; existing pkg tests pass)
# 2. applies it to /repo, runs ./check PROP quick, reverts
# 3. stores patch/demo/meta under /verif/seeded/<id>/
set -u
D=$1; P=$2; ID=$3; B=${4:-45}
export GOFLAGS=-mod=mod GOPROXY=off GOSUMDB=off GOTOOLCHAIN=local
WT=/tmp/wt-verify-$$
git -C /repo worktree add -q $WT HEAD || exit 2
pkgdir=$(head -1 $D/demo_test.go | grep -o 'internal/[A-Za-z0-9_/]*\|apis/[A-Za-z0-9_/]*\|cmd/[A-Za-z0-9_/]*' | head -1)
echo "demo package dir: $pkgdir"
cp $D/demo_test.go $WT/$pkgdir/zz_verifdemo_test.go
pkgs=$(cd $WT && git apply --numstat $D/patch.diff | awk '{print $3}' | xargs -n1 dirname | sort -u | sed 's|^|./|')
( cd $WT && go test -count=1 ./$pkgdir/ -run 'Demo' > /tmp/mut_without.txt 2>&1 ); without=$?
( cd $WT && git apply $D/patch.diff ) || { echo "PATCH DOES NOT APPLY"; git -C /repo worktree remove --force $WT; exit 2; }
( cd $WT && go build ./... > /tmp/mut_build.txt 2>&1 ); build=$?
( cd $WT && go test -count=1 ./$pkgdir/ -run 'Demo' > /tmp/mut_with.txt 2>&1 ); with=$?
( cd $WT && rm $pkgdir/zz_verifdemo_test.go && go test -count=1 $pkgs > /tmp/mut_existing.txt 2>&1 ); existing=$?
git -C /repo worktree remove --force $WT
echo "demo without patch rc=$without (want 0); build rc=$build (want 0); demo with patch rc=$with (want !=0); existing tests rc=$existing (want 0)"
if [ $without -ne 0 ] || [ $build -ne 0 ] || [ $with -eq 0 ] || [ $existing -ne 0 ]; then echo "MUTATION NOT CONFIRMED"; tail -20 /tmp/mut_existing.txt; exit 3; fi
cd /verif
git -C /repo apply $D/patch.diff || exit 2
VERIF_BUDGET_S=$B ./check $P quick > /tmp/mut_check.txt 2>&1; rc=$?
git -C /repo checkout -- .
tail -8 /tmp/mut_check.txt
echo "check rc=$rc"
mkdir -p /verif/seeded/$ID
cp $D/patch.diff /verif/seeded/$ID/patch.diff
cp $D/demo_test.go /verif/seeded/$ID/demo_test.go
[ -f $D/README.md ] && cp $D/README.md /verif/seeded/$ID/README.md
det=$( [ $rc -eq 1 ] && echo true || echo false )
sig=$(grep -A1 '^VIOLATION' /tmp/mut_check.txt | grep signature | head -3 | sed 's/.*signature: //' | tr '\n' ';')
python3 - <<PY
import json
json.dump({"property":"$P","id":"$ID","demo_package":"$pkgdir","verified":{"demo_passes_without":True,"demo_fails_with":True,"existing_tests_pass_with":True,"builds":True},
 "check_cmd":"VERIF_BUDGET_S=$B ./check $P quick","check_exit":$rc,"detected":"$det"=="true","signatures":"$sig","needs":open("$D/README.md").read()[:1500] if __import__("os").path.exists("$D/README.md") else ""},
 open("/verif/seeded/$ID/meta.json","w"),indent=1)
PY
