#!/bin/bash
# usage: mut.sh <mutation-dir> <PROP> <seeded-id> [budget_s]
# 1. verifies the mutation in a scratch worktree (demo passes without, fails with; existing tests of touched pkgs pass; builds)
# 2. runs ./check PROP quick against that scratch worktree (VERIF_REPO) with its own output dir, so /repo is never touched
#    and other work can go on in parallel. (Equivalent to `git -C /repo apply`; /repo stays clean.)
# 3. stores patch/demo/meta under /verif/seeded/<id>/
set -u
D=$1; P=$2; ID=$3; B=${4:-45}
export GOFLAGS=-mod=mod GOPROXY=off GOSUMDB=off GOTOOLCHAIN=local
WT=/tmp/wt-verify-$ID
OD=/tmp/out-verify-$ID
L=/tmp/mut-$ID
mkdir -p $L
git -C /repo worktree add -q $WT HEAD || exit 2
cleanup() { git -C /repo worktree remove --force $WT; rm -rf $OD; }
pkgdir=$(head -1 $D/demo_test.go | grep -o 'internal/[A-Za-z0-9_/]*\|apis/[A-Za-z0-9_/]*\|cmd/[A-Za-z0-9_/]*' | head -1)
echo "[$ID] demo package dir: $pkgdir"
cp $D/demo_test.go $WT/$pkgdir/zz_verifdemo_test.go
pkgs=$(cd $WT && git apply --numstat $D/patch.diff | awk '{print $3}' | xargs -n1 dirname | sort -u | sed 's|^|./|')
( cd $WT && go test -count=1 ./$pkgdir/ -run 'Demo' > $L/without.txt 2>&1 ); without=$?
( cd $WT && git apply $D/patch.diff ) || { echo "[$ID] PATCH DOES NOT APPLY"; cleanup; exit 2; }
( cd $WT && go build ./... > $L/build.txt 2>&1 ); build=$?
( cd $WT && go test -count=1 ./$pkgdir/ -run 'Demo' > $L/with.txt 2>&1 ); with=$?
( cd $WT && rm $pkgdir/zz_verifdemo_test.go && go test -count=1 $pkgs > $L/existing.txt 2>&1 ); existing=$?
echo "[$ID] demo without patch rc=$without (want 0); build rc=$build (want 0); demo with patch rc=$with (want !=0); existing tests rc=$existing (want 0)"
if [ $without -ne 0 ] || [ $build -ne 0 ] || [ $with -eq 0 ] || [ $existing -ne 0 ]; then echo "[$ID] MUTATION NOT CONFIRMED"; tail -20 $L/existing.txt; cleanup; exit 3; fi
cd /verif
# build from a private copy of the simulator sources, so that edits made in /verif/sim while this runs cannot break the build
mkdir -p $OD && rsync -a --delete /verif/sim/ $OD/sim/
VERIF_SIMDIR=$OD/sim VERIF_REPO=$WT VERIF_OUTDIR=$OD VERIF_EVIDENCE_DIR=$OD/evidence VERIF_BUDGET_S=$B ./check $P quick > $L/check.txt 2>&1; rc=$?
tail -8 $L/check.txt | cut -c1-400
echo "[$ID] check rc=$rc"
mkdir -p /verif/seeded/$ID
cp $D/patch.diff /verif/seeded/$ID/patch.diff
cp $D/demo_test.go /verif/seeded/$ID/demo_test.go
[ -f $D/README.md ] && cp $D/README.md /verif/seeded/$ID/README.md
sig=$(grep -A1 '^VIOLATION' $L/check.txt | grep signature | head -3 | sed 's/.*signature: //' | tr '\n' ';')
python3 - <<PY
import json,os
json.dump({"property":"$P","id":"$ID","demo_package":"$pkgdir","verified":{"demo_passes_without":True,"demo_fails_with":True,"existing_tests_pass_with":True,"builds":True},
 "check_cmd":"VERIF_REPO=<scratch worktree with patch applied> VERIF_BUDGET_S=$B ./check $P quick","check_exit":$rc,"detected":$rc==1,"signatures":"$sig",
 "needs":open("$D/README.md").read()[:1500] if os.path.exists("$D/README.md") else ""},
 open("/verif/seeded/$ID/meta.json","w"),indent=1)
PY
cleanup
