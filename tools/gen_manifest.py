#!/usr/bin/env python3
"""Regenerate /verif/MANIFEST.json from the table below (keeps it valid and consistent)."""
import json, os
V = os.path.dirname(os.path.dirname(os.path.abspath(__file__)))
BASE = json.load(open('/root/.vp/BASELINE.json'))["cmd"] if os.path.exists('/root/.vp/BASELINE.json') else "see BASELINE.json"

NA = {
 "C10": "pure function of (XR, template, existing resource): no schedule, clock, fault or interleaving for a simulator to decide (DESIGN.md §8); its single fault-dependent clause (a resource whose render failed is not applied while the others are) is enforced as an extra invariant inside the C05 check",
 "C11": "xcrd derivation and the XRD validators are pure functions of one or two XRDs: nothing for a scheduler or fault injector to decide (DESIGN.md §8)",
 "C18": "coverage of RBAC rule sets is a relation over inputs only and the rendered roles are a pure function of the revision; no schedule, fault or history in the statement (DESIGN.md §8)",
}
PENDING = "check not built yet (implementation in progress; DESIGN.md §11 gives the order)"

CHECKS = {}

def check(pid, category, text, note, technique, design_ref):
    CHECKS[pid] = {
        "property_id": pid,
        "quick_cmd": "./check %s quick" % pid,
        "thorough_cmd": "./check %s thorough" % pid,
        "evidence_file": "/verif/evidence/%s.json" % pid,
        "replay_cmd_template": "./check %s --replay {path}" % pid,
        "engine": "xpsim",
        "level_claimed": {"category": category, "text": text, "design_ref": design_ref},
        "level_note": note,
        "technique": technique,
    }

TB = ("Trusted base: the simulated API server (simapi; semantics listed in evidence.assumptions), the scheduler's over-approximation of reconcile triggers, "
      "the GOROOT map-seed overlay. Sampling, not enumeration: a clean batch is evidence, not proof.")

check("C12", "exploration",
      "Seeded deterministic simulation of the real composition revision controller and the XR reconciler's real revision selection on a stateful, fault-injecting API server model: "
      "random edit histories over 2-4 contents (A-B-A reverts, label- and annotation-only edits), owner-reference stripping (restore), reconciles faulted or crashed at any API call, "
      "Manual/Automatic/selector XRs. Invariants after every scheduler step (one revision per content, immutable spec, non-decreasing numbers, Manual XRs pinned), "
      "after every undisturbed successful reconcile and at quiescence (current content's revision exists and carries the strictly highest number; Automatic XRs reference the highest matching revision). "
      "Violations are minimised and replayed from a tape file.",
      TB + " Not decided: revision histories longer than ~160 scheduler steps per run.",
      "deterministic simulation with fault injection: seeded schedule/fault search, step invariants + reference model, tape replay and minimisation",
      "§7 C12")

check("C01", "exploration",
      "Seeded deterministic simulation of the real XRD controller, the real XR reconciler it builds and both real composers (function pipeline with scripted functions behind the gRPC interceptor seam; named patch-and-transform templates) "
      "on a stateful API server model with real server-side apply. Every API call of every reconcile is a fault point: error before, reply lost after the write took effect, conflict, process crash before/after; "
      "a single-shot mode places exactly one fault at a drawn call index. XR and Composition edits grow, shrink and change the desired set. "
      "Invariants after EVERY scheduler step: every live composed resource controlled by a live XR is listed in the stored spec.resourceRefs; at most one live composed resource per (XR, desired name). "
      "After faults stop: fault-free reconciles must reach a fixpoint in which a further full round changes no object (idempotence).",
      TB + " Not decided: stale-cache reads of the XR (outside the stated quantifier); composed resources with their own finalizers.",
      "deterministic simulation with fault injection: seeded schedule/fault/crash search, per-step store invariants, bounded-liveness fixpoint after heal, tape replay and minimisation",
      "§7 C01")

check("C03", "exploration",
      "Same world as C01 with failure injection aimed at the pipeline: scripted fatal results at a chosen step (switched on and off by XR edits), never-stabilising requirement programs, "
      "gRPC transport errors at the function seam, API errors on the reads that observe composed resources, their secrets, function revisions and extra resources; desired sets that grow, shrink and drop across reconciles; P&T templates toggled. "
      "Each finished XR reconcile is judged from the API write log and the recorded function calls: a reconcile in which one of the four failure kinds occurred issued no write on any composed kind and left spec.resourceRefs unchanged; "
      "a successful compose deleted exactly the previously referenced, existing, not foreign-controlled resources absent from the final desired state (pipeline: last response; P&T: template names of the revision used); "
      "no reconcile ever deletes or label-strips a resource that is in its final desired state, deletes something the XR never referenced, or deletes a foreign-controlled object.",
      TB + " The final desired state is taken from the scripted functions' recorded responses (the wire bytes the composer received). Control of composed resources passes to a stranger while reconciles run (a foreign-controlled resource is never deleted; an XR blocked by one is not judged for liveness).",
      "deterministic simulation with fault injection: seeded schedule/fault search, per-reconcile oracle over the recorded write log and function-call history",
      "§7 C03")

check("C06", "exploration",
      "Seeded deterministic simulation of the real offered (claim XRD) controller, the real claim reconciler it builds with either the client-side or the server-side-apply syncer (drawn per run), and the real XR reconciler, "
      "with the claim controller reading claims through a cache view that lags the store by a tape-chosen number of writes. Claims are created, edited, deleted and re-created; a user points a claim at another claim's XR; "
      "every API call is a fault point (error before, reply lost after the effect, conflict, crash before/after) and the Kubernetes garbage collector is an interleaved actor. "
      "Judged at every request that reaches the store: an XR create by a claim reconcile happens only when the STORED claim already references that name; one claim incarnation (UID) never causes two XR names to be created; "
      "a claim reconcile never issues a write or delete on an XR whose claimRef names another claim. After every step: at most one live XR references a claim.",
      TB + " XR reads of the claim controller are fresh (the property names stale reads of the claim only). Name-collision hijacks need a random-suffix collision and are not generated.",
      "deterministic simulation with fault injection: seeded schedule/fault/crash/stale-read search, invariants at every committed request and every step",
      "§7 C06")

check("C13", "exploration",
      "Seeded deterministic simulation of the real engine.ControllerEngine, StoppableSource, InformerTrackingCache and watch.GarbageCollector driven by 2-4 concurrent client tasks issuing random Start/Stop/IsRunning/StartWatches/StopWatches/GetWatches/collector/informer-removal sequences. "
      "The repo's own lock discipline is explored as written: a build-time overlay rewrites sync.RWMutex in internal/engine/{engine,cache}.go (copied from the current tree) to scheduler-visible locks with Go's RWMutex semantics (writer preference), so the tape decides every interleaving at lock and informer-call granularity. "
      "Oracles: a state with blocked tasks and no grantable request is a deadlock; the Start/Stop/IsRunning history (stamped with scheduler sequence numbers) must be linearizable against a boolean register per controller (porcupine); after every successful StartWatches each requested kind has a live handler; "
      "at quiescence no stopped controller object keeps a handler or an uncancelled context, no controller has more live handlers than listed watches, no watch is listed twice; sequential probes check re-establishment after informer removal and that the collector stops exactly the unreferenced composed-resource watches and never the XR or revision watch. "
      "The thorough tier re-runs the harness under the Go race detector.",
      TB + " Code between two lock/informer calls runs atomically in the simulation; data races on unsynchronised state are only observed by the race-detector build for the schedules it happens to run. The controller-runtime controller and cache are stubs.",
      "deterministic simulation: seeded interleaving search at overlay-instrumented lock points, deadlock detection, porcupine linearizability of the recorded history, quiescent-state invariants",
      "§7 C13")

check("C14", "exploration",
      "Seeded deterministic simulation of the real package manager reconciler and PackageRevisioner (Provider packages) on the simulated API server and a simulated registry whose tags move. "
      "Users edit source (other tags, digests, rollbacks), history limit (0-2), activation and pull policy at arbitrary points, also between two reconciles and in the middle of one; a stub flips revision health; every API and registry call is a fault/crash point. "
      "After every step: at most one revision of a package is Active. At every committed revision delete by the manager: allowed by some revisionHistoryLimit value the reconcile could have read (never 0, only above limit+1), and - judged once the reconcile ended - not the revision of the digest the registry served to it, and the lowest numbered of the others. "
      "After every undisturbed successful reconcile: status.currentRevision exists, carries the package's source, has the strictly highest number and is Active unless activation is Manual; one image digest always maps to one revision name and vice versa.",
      TB + " Only Provider packages are driven (the reconciler is shared by all package types). The revision controller is a stub.",
      "deterministic simulation with fault injection: seeded schedule/fault/crash search, invariants per step, per committed delete and per finished reconcile",
      "§7 C14")

check("C20", "exploration",
      "Seeded deterministic simulation of `crossplane core init`: every real initializer step in the command's order (real RSA/x509 certificate generation, CRDs and webhook configurations from /repo/cluster) against a simulated API server that starts without any Crossplane kind. "
      "Initial clusters: empty, fully initialised, or an initialised cluster damaged by deleting/emptying/stripping TLS secrets, deleting CRDs and webhook configurations; packages pre-installed under derived or custom names, with and without registry host, tag or digest; default Lock/StoreConfig/DeploymentRuntimeConfig with user content. "
      "0-3 init runs are aborted by an API error (before, or after the write took effect) or a crash at any call; then fault-free runs. "
      "Every step: a complete CA/TLS secret never changes a byte; pre-existing default objects keep their content. After completion: issued certificates verify against the stored CA (crypto/x509) and cover the service DNS names; every conversion-webhook CRD and webhook configuration carries the server certificate bundle; all core CRDs exist; "
      "each requested package has exactly one object per registry/repository whose source equals the request; one more run changes no object (idempotence) and must succeed; fault-free runs must complete unless a partially filled server secret blocks them.",
      TB + " CRD status.storedVersions is not modelled, so the storage-version migrators only take their no-op path. RSA generation dominates: about 300 runs per minute.",
      "deterministic simulation with fault injection: seeded initial-state/fault/crash search over repeated init runs, per-step invariants and end-state oracles",
      "§7 C20")

check("C08", "exploration",
      "Seeded deterministic simulation of teardown in W-claim: real definition/offered (XRD) controllers, real claim and XR reconcilers, with the Kubernetes garbage collector and the API server's CRD instance cleanup as interleaved actors. "
      "Users delete claims (Background/Foreground policy), XRs and the XRD at arbitrary steps; a third party strips finalizers of terminating claims and XRs; API errors, lost replies, conflicts and crashes at any call. "
      "Judged at the commit of each relevant write (ordered write log): the claim finalizer is removed only when the bound XR is absent or (Background) already marked deleted, and absent under Foreground; "
      "a CRD delete by an XRD controller commits only with zero instances in the store and after SimEngine.Stop of the serving controller; during XRD teardown a controller is stopped only with zero instances; "
      "an XRD finalizer is removed only when its CRD is absent or not controlled by the XRD.",
      TB + " Claimed here: claim/XR/XRD ordering. The composed-Usage clause is decided inside the C19 check and the package-revision/lock clause inside the C17 check (signature prefix C08/ in both). Bounded liveness of teardown is counted, not judged.",
      "deterministic simulation with fault injection: seeded schedule/fault/crash search, ordering oracles over the committed write log and engine stop events",
      "§7 C08")

check("C19", "exploration",
      "Seeded deterministic simulation of the real Usage reconciler and the real no-usages admission webhook (registered by the real SetupWebhookWithManager on a fake manager; rules and objectSelector parsed from cluster/webhookconfigurations/usage.yaml), with every DELETE reaching the store only through the admission chain. "
      "1-3 Usages over one used resource (a kind served in two versions, referenced by either version, by name or by label selector) and two using resources; Usages, used and using resources are created and deleted in any order, with any propagation policy and request version; the garbage collector and the clock (delayed replay of deletions) are interleaved actors; reconciles are faulted or crashed at any call. "
      "Every DELETE of the used resource is judged: refused and recorded on the resource while a ready, not-deleted Usage names it; allowed when no Usage names it. At the commit that makes a Usage ready: the used resource carries the in-use marker and the Usage is owned by its using resource. "
      "A marker removal by the controller happens only when no other Usage that named the resource at the remover's last listing remains. Final probe: after deleting the users the garbage collector releases the Usages and the delete of the used resource is allowed. "
      "Also decides C08's composed-Usage clause: a composed Usage loses its finalizer only when the using resource it was bound to (by UID) is gone.",
      TB + " The webhook's reads and its annotation patch are atomic with the DELETE request (in reality they are separate API calls of the webhook process). Re-creating a used resource under a ready Usage is outside the generated histories.",
      "deterministic simulation with fault injection: seeded schedule/fault/crash search; every delete request and every committed controller write judged against the store and the read/write log",
      "§7 C19")

check("C15", "exploration",
      "Seeded deterministic simulation of W-pkg: the real package manager and revision reconcilers for Provider, Configuration and Function packages with the real image backend, parser, linters, establisher and on-disk package cache, over a simulated registry and a simulated disk. "
      "Package streams are drawn: 0-3 objects, wrong / missing / duplicate metadata, kinds the xpkg specification forbids for the type, Crossplane version constraints met or unmet (with and without ignoreCrossplaneConstraints), annotated single layer, plain image filesystem and several annotated layers; valid annotated images are produced by the repo's own xpkg builder (build -> parse round trip). "
      "Faults: API errors/lost replies/conflicts/crashes at any call, registry errors, disk errors, short writes, ENOSPC and crashes with torn writes inside the cache tee, truncated or bit-flipped cache entries between reconciles, two revisions of a package reconciled over the same cache, version switches. "
      "Judged at every committed write of a revision reconcile on a package object: never for a package that independent rules (written from contributing/specifications/xpkg.md) reject, and only objects of the package stream of the image the source names. "
      "After every reconcile that reports healthy: the package is valid, status.objectRefs equals the image's declared object set (same from registry or cache), and for active revisions every declared object exists.",
      TB + " ValidatingWebhookConfiguration objects are not generated (the establisher deliberately renames them). Signature verification is not driven (feature off). A revision wedged forever by a corrupt cache entry establishes nothing and is therefore not a violation of the statement.",
      "deterministic simulation with fault injection: seeded package/fault/crash/disk-fault search; every establish write and every healthy status judged against independent packaging rules and the registry's record",
      "§7 C15")

check("C16", "exploration",
      "Same world as C15 with the Kubernetes garbage collector as an interleaved actor: packages sharing object names, cluster objects pre-existing uncontrolled or controlled by a stranger, an API-server admission rule that rejects one package object, user-data instances of package CRDs, upgrade and rollback between two versions with active and inactive revisions reconciled in any order, API faults and crashes. "
      "Oracles: a revision reconcile during which some package object is controlled by another owner or rejected by the API server commits no change to any package object (all-or-nothing, from the write log); an object create is only committed by a reconcile that read its revision as Active; "
      "after a successful reconcile an Active revision controls every declared object and each lists the package as a non-controlling owner, an Inactive revision controls nothing and still owns what it owned when the reconcile started; "
      "while a package exists the garbage collector never deletes one of its CRDs, and never a user-data instance.",
      TB + " Ownership conflicts between two Crossplane packages arise only by chance of the drawn object names.",
      "deterministic simulation with fault injection: seeded schedule/fault/crash search; per-reconcile oracle over the write/read log, ownership invariants after successful reconciles, garbage-collector actor",
      "§7 C16")

check("C17", "exploration",
      "Seeded deterministic simulation of W-pkg with the real dependency resolver (resolver.Reconciler), the real revision reconcilers with PackageDependencyManager and both DAG implementations, and the real package managers, over a simulated registry whose repositories list unsorted, partly non-semver tags and gain tags during the run. "
      "Random dependency graphs over 2-4 repositories (diamonds, self loops, cycles), per-version dependencies, constraint strings drawn from ranges, exact versions, digests, invalid and unsatisfiable ones; upgrade/downgrade options drawn per run; API and registry faults and crashes. "
      "Judged at every package create/update the resolver commits, against the Lock and the tag list that very reconcile read: no write while an independent DFS finds a cycle in that Lock; some package in the Lock depends on the repository; an installed version equals the pinned digest or is the maximum tag satisfying one parent's constraint (recomputed with Masterminds/semver); "
      "a moved version is the lowest not-older tag satisfying every parent, or with downgrades the highest satisfying one. At every revision status write that turns Healthy with dependency resolution on: every direct dependency is in the Lock at a version satisfying its constraint and the transitive closure is present. "
      "Also decides C08's lock clause: a revision loses its finalizer only when the Lock no longer lists it (packages are deleted during the run; the garbage collector is an actor).",
      TB + " NOT decided: the quantifier's 'every directed graph on up to N packages exhaustively' (graphs are sampled, which is the technique's limit). Observed but outside the statement: with upgrades enabled the resolver panics (semver.MustParse) on a dependency installed by digest or non-semver tag.",
      "deterministic simulation with fault injection: seeded graph/constraint/tag-list/fault search; every resolver write and healthy transition judged against an independent recomputation over what the reconcile read",
      "§7 C17")

check("C09", "exploration",
      "Seeded deterministic simulation in W-claim of the real XR reconciler with the real APIFilteredSecretPublisher and the real claim reconciler with the real APIConnectionPropagator. "
      "Scripted pipeline steps emit connection details (keys user/pass/extra, later steps overriding earlier ones); the XRD key filter is drawn (none, one, two keys); Compositions with and without writeConnectionSecretsToNamespace; claims with and without writeConnectionSecretToRef; "
      "secrets pre-existing at the claim's secret name (absent, uncontrolled, controlled by a stranger, other secret type); a stranger taking the name an XR will publish under; API faults, lost replies, conflicts and crashes. "
      "Judged at every secret write a reconcile issues: an XR reconcile only touches the secret its XR names, and none if it names none; keys it adds or changes are allowed by the XRD filter and carry exactly the value the last function response of that very reconcile produced for this XR; "
      "a claim reconcile only touches its claim's secret, only after reading its bound XR's secret and only if that XR controls it; every key it changes equals the source and the result contains all source keys; a write with identical content is a violation; stranger-controlled secrets stay byte-identical after every step. "
      "Two runs in five are Resources-mode compositions whose templates extract connection details (fixed values, the same key from two templates, keys of the composed resource's own connection secret with and without a name of their own, field paths that exist, appear later or never exist), with an actor that publishes, rotates and loses the composed resources' connection secrets: "
      "what such a composition produced is recomputed by a reference model of the extraction from the reconcile's own reads (revision, composed resources as applied, secrets as read); every write is judged against it and so is, at the end of every fault-free reconcile, completeness of the secret as that reconcile left it. "
      "An uncontrolled secret of an ordinary type at the XR's secret name must not be written by a reconcile that read it as such.",
      TB + " Keys already present in an adopted pre-existing secret are attributed to whoever put them there.",
      "deterministic simulation with fault injection: seeded schedule/fault/crash search; every secret write judged against the recorded function output and the read log",
      "§7 C09")

check("C02", "exploration",
      "Seeded deterministic simulation over four worlds (one drawn per run) in which a stranger - an owner that is not the Crossplane owner - places objects carrying controller:true for a foreign UID at the names Crossplane is about to write: "
      "W-xr: the name a function asks for (both composers run; functions choose metadata.name), an object named in spec.resourceRefs and annotated with a template/resource name, the XR's connection secret; "
      "W-claim: the claim's connection secret under both syncers, and the composite or claim CRD name the XRD controllers derive (placed before they first run); "
      "W-pkg: the PackageRevision name the manager derives for one version, and package objects (CRDs) of Provider/Configuration/Function packages; "
      "W-rbac: the ClusterRoles rbac/definition and rbac/provider/roles derive and the ClusterRoleBinding rbac/provider/binding derives (real reconcilers). API faults, lost replies, conflicts and crashes on top. "
      "Oracles: every foreign object stays byte-identical after every scheduler step; the write log never shows a committed update/patch/delete by a Crossplane actor addressed to it; for a blocked XR the conflict is visible as a Warning event or a non-True Synced condition at quiescence (counted). "
      "Masked exactly as the property scopes out: the plain owner reference an inactive package revision adds. A revision controller's own bookkeeping on a foreign-controlled revision object is not an act on behalf of a package and is not judged.",
      TB + " Composed-resource names that Crossplane generates randomly cannot be squatted in advance; that placement is exercised through functions that choose metadata.name and through spec.resourceRefs.",
      "deterministic simulation with fault injection: seeded placement/schedule/fault/crash search; snapshot equality after every step and write-log scan",
      "§7 C02")

check("C04", "exploration",
      "Seeded deterministic simulation in W-xr of the real XR reconciler with FunctionComposer, FetchingFunctionRunner, ExistingExtraResourcesFetcher and the real xfn.PackagedFunctionRunner + v1beta1 fall-back client; scripted functions (deterministic programs of their request carried in the step input) answer at the gRPC interceptor seam after a protobuf wire round trip. "
      "Pipelines of 1-4 steps over two functions: desired resources emitted, dropped, relabelled, renamed; context trail appended or rewritten; requirement programs by name, by labels, link-chasing (changes between rounds) and never-stabilising; credentials from secrets; results, conditions, fatal results. While reconciles run, the environment changes the extra resources, the credential secrets, the active function revision and its endpoint, v1 vs v1beta1 serving, uninstalls and reinstalls functions, and runs the connection garbage collector concurrently (the runner's lock is scheduler-visible); transport errors, API errors, conflicts, crashes. "
      "Judged at the end of every XR reconcile by a reference interpreter of the function contract (written from run_function.proto, sharing no code with Compose or FetchingFunctionRunner) replayed over the recorded requests: call n goes to the step the pipeline names and to the endpoint of the active revision listed right before the call; observed state identical in every call and equal to the XR and the controlled, referenced composed resources this reconcile read; desired and context equal to the previous step's settled output (empty for the first); the step's own input and the credentials' secret data as read; after a response whose requirements differ from the previous round's the next call is the same step carrying exactly the resources this reconcile's reads returned for the latest selectors (none left over from earlier rounds or steps); no call after a fatal result, a failed call, a failed read or the end of the pipeline; at most 16 rounds; nothing applied unless the last step settled; applied resources and XR status equal the last step's output; results appear as events in pipeline order and conditions reach the XR with later steps overriding earlier ones; the v1beta1 request equals the v1 request it replaces.",
      TB + " The schedule dimension is thin here (concurrent writers, endpoint flips, fall-back, connection GC); most deciding power comes from seeded programs checked against the reference model over the recorded message history.",
      "deterministic simulation with fault injection: seeded program/schedule/fault search; refinement of the recorded request history against an executable reference model of the function contract",
      "§7 C04")

check("C05", "exploration",
      "Seeded deterministic simulation in W-claim of the real XR reconciler (both composers) and the real claim reconciler, with composed kinds served by real schema validation (one kind rejects applies that lack a required field), an external actor flipping composed resources' status, and scripted functions that mark resources ready by all/observed/field/none, mark the XR ready true/false/unset, emit conditions of system and custom types with both targets, and return warning or fatal results; P&T templates with readiness checks (None, MatchString, default condition) and required patches whose XR source may be missing. API faults, lost replies, conflicts, crashes. "
      "Judged at the end of every XR reconcile that committed a status write, against the recorded function responses, the revision used and the write log of that very reconcile: Ready=True only if the pipeline marked the XR ready, or did not mark it unready and every desired resource is ready (P&T: recomputed by an independent readiness evaluator on the object as applied); "
      "Synced=True only if every desired resource has a write committed without error in this reconcile and no template failed to render; no stored Ready/Synced/Healthy condition carries the marker the scripted functions put on forged conditions; after a fatal result custom conditions not re-asserted are Unknown and Synced is not True. "
      "At every claim status write that turns Ready=True: the last XR version that reconcile observed (its read, or the answer to its own write) had Ready=True. C10's single fault-dependent clause rides along (signature prefix C10/): a template whose render failed gets no write in that reconcile.",
      TB + " The property's quantifier is over inputs; the simulation contributes the fault-dependent outcomes (apply rejected, reconcile errors, interleaved status flips).",
      "deterministic simulation with fault injection: seeded program/schedule/fault search; end-of-reconcile oracle over recorded function responses and the write/read log",
      "§7 C05")

check("C07", "exploration",
      "Seeded deterministic simulation in W-claim of the real claim reconciler with either syncer (drawn per run) and the real XR reconciler writing XR-owned fields (resourceRefs, revision reference, connection secret reference, status, conditions, connection bookkeeping) between syncs. "
      "Claims valid for the generated claim CRD (the simulated API server prunes exactly like the real one): nested user objects whose keys collide with machinery names at other depths, every subset of selection fields, Manual/Automatic/unset policy, reserved (*.kubernetes.io, *.k8s.io) and unreserved labels/annotations; user edits that change and remove fields; first sync and re-sync; API faults, conflicts, crashes. "
      "Judged at every write a claim reconcile commits, against a partition written from the API documentation and against what that reconcile itself read: on the XR - claim-owned user and selection fields equal the claim's (removed fields disappear under the server-side syncer), claim-only machinery (resourceRef, compositeDeletePolicy, the claim's secret reference) absent, reserved keys not copied, XR-owned fields (resourceRefs, claimRef, the XR's secret reference, an existing external name, the automatically selected revision, status) unchanged; "
      "on the claim - spec changes only in resourceRef, compositionRef when it had none, revision under non-Manual policy; status receives only user status fields equal to the XR's; no XR condition beyond those the XR publishes for its claim.",
      TB + " Two allowances keep the oracle no stricter than the statement, both for the legacy client-side syncer only: its merge patch leaves keys removed inside a nested user object on the XR, and it merges claim-owned fields the XR has and the claim lacks back into the claim.",
      "deterministic simulation with fault injection: seeded content/edit/schedule/fault search; every committed sync write judged against an independent field partition and the read log",
      "§7 C07")


# Additions made while strengthening the checks against seeded changes (DESIGN.md §0.6).
ADD = {
 "C01": " Also: templates with a required patch whose source comes and goes (a template that stops rendering and renders again), a composed kind that rejects some applies, and a lagging composed-resource cache (per read, or until the environment lets it catch up), providers updating the status of composed resources.",
 "C02": " Also dynamic placements while reconciles run: a composed resource deleted and created again under its name by another owner; control of a composed resource or of an XRD's CRD passing to another owner on the same object, followed by XRD deletion; the still active revision of an earlier incarnation of a package. A write that went through on a copy the reconcile had read as its own gets its own signature (check-then-act family, recorded findings).",
 "C03": " Also: body-less desired entries, P&T compositions that start with anonymous templates and are migrated to named ones (a still-desired resource is recognised by the content of its template), manual cache lag.",
 "C05": " Also: a P&T template whose object the API server rejects as invalid, templates with several readiness checks, compositions that start with anonymous templates (recognised by their content); Ready is judged only for reconciles that got through their composition.",
 "C06": " Also: a same-named claim in another namespace pointed at the first claim's XR, generated names that repeat (collisions), and an oracle that a retry creates the XR under the name the claim had recorded. Only committed writes count as touching a foreign XR.",
 "C07": " Also: external names given and taken away by the user, claims without any unreserved annotation, names recorded on the XR side; at the end of an undisturbed reconcile the claim carries the external name its XR had when the reconcile read it.",
 "C08": " Each run draws one of three worlds: W-claim (above), W-pkg with the dependency resolver (a deleted revision leaves the lock before it loses its finalizer; root packages move between two versions so that inactive revisions are deleted), and the usage world (a composed Usage is finalized only after its using resource is gone); only C08's own oracles speak in the borrowed worlds.",
 "C09": " Also: XRs force-deleted and created again under their name, an uncontrolled or namesake-controlled connection secret left in place of the XR's, connection keys that come and go; the UID the pipeline observed must be the UID controlling the secret written; after an undisturbed claim reconcile the claim's secret equals the XR's secret as read (exact copy, stale keys removed).",
 "C13": " Also: a controller the engine no longer reports although it was never cancelled, and terminating XRs (finalizer, deletion timestamp) among those the watch collector sees; several controllers running under one name; a scheduling point after every unlock (what was read under a lock can be stale when it is acted on).",
 "C15": " Also: packages larger than one gzip block with cache-write failures mid-stream; signature verification switched on with the signature controller played by the environment; a scheduling point inserted by the build-time overlay inside ImageBackend.Init (state shared by concurrent reconciles); bounded liveness: once faults stop, the current revision of every valid package is healthy with exactly the objects its image declares.",
 "C16": " Also: an API-server rejection that starts and stops while revisions are established, package objects deleted out of band, manual activation (inactive revisions that establish ownership), objects controlled by a revision of another package. Ownership is judged on the object as the reconcile left it; the package stays a plain owner also when an inactive revision establishes.",
 "C17": " Also: a dependency shared by several parents under bounding constraints, tag lists with gaps in the satisfying set (pre-releases, exclusions, disjoint ranges).",
 "C20": " Also: two initialisations running concurrently, a core CRD with webhook conversion (the shipped CRDs have none), packages hosted on docker.io, and an oracle at issuance: a certificate the initializer issues verifies against, and carries, the CA stored at that moment.",
}

def main():
    props = [json.loads(l)["id"] for l in open(os.path.join(V, "properties.jsonl"))]
    na = []
    for p in props:
        if p in CHECKS:
            continue
        na.append({"property_id": p, "reason": NA.get(p, PENDING)})
    m = {
        "version": 1,
        "setup_cmd": "./setup.sh",
        "hooks": {
            "guard": "none: no file under /repo carries a hook; instrumentation is applied at build time with go build -overlay (generated copies under /verif/out/overlay)",
            "enable": "./build.sh (go1.26.8 test -c -overlay out/overlay/overlay.json ./harness): GOROOT map-seed patch, simsync lock rewrite of internal/engine/{engine,cache}.go and internal/xfn/function_runner.go, a scheduling point in internal/controller/pkg/revision/imageback.go, copied from /repo's current tree, overlay-only package internal/simsync",
            "baseline_off_cmd": BASE,
            "source_commits": [],
            "add_only": True,
        },
        "engines": [{"name": "xpsim", "path": "/verif/sim", "serves_properties": sorted(CHECKS), "kind_free_text": "deterministic simulator: seeded scheduler + choice tape, synctest fake clock, simulated Kubernetes API server with real server-side apply, fault/crash injection at every seam call, tape minimisation and replay"}],
        "checks": [dict(CHECKS[p], level_claimed=dict(CHECKS[p]["level_claimed"], text=CHECKS[p]["level_claimed"]["text"] + ADD.get(p, ""))) for p in sorted(CHECKS)],
        "not_applicable": na,
        "notes": "fix commits in /repo are listed in known_findings.json (status fixed). See DESIGN.md.",
    }
    json.dump(m, open(os.path.join(V, "MANIFEST.json"), "w"), indent=1)

if __name__ == "__main__":
    main()
