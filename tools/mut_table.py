#!/usr/bin/env python3
"""Render the seeded-mutation table (DESIGN.md §0.6) from seeded/*/meta.json and
replace the text between the MUTATION-TABLE markers in DESIGN.md."""
import json, os, re, sys
V = os.path.dirname(os.path.dirname(os.path.abspath(__file__)))
rows = []
for d in sorted(os.listdir(os.path.join(V, "seeded"))):
    p = os.path.join(V, "seeded", d, "meta.json")
    if not os.path.exists(p):
        continue
    m = json.load(open(p))
    needs = m.get("needs", "")
    title = needs.strip().split("\n")[0].lstrip("# ").strip()
    title = re.sub(r"^[Mm]\d+\s*[-:–—]+\s*", "", title)
    note = m.get("note", "")
    sig = (m.get("signatures") or "").strip(";").replace(";", ", ")
    rows.append((m["id"], title[:110], "caught" if m.get("detected") else "MISSED", (sig + (" — " + note if note else "")) if m.get("detected") else note))
out = ["| id | change (one line, from the author's README) | result | signature that fired / why missed |", "|---|---|---|---|"]
for r in rows:
    out.append("| %s | %s | %s | %s |" % r)
n = sum(1 for r in rows if r[2] == "caught")
out.append("")
out.append("%d of %d seeded changes caught by the property's `quick` check." % (n, len(rows)))
txt = "\n".join(out)
dp = os.path.join(V, "DESIGN.md")
t = open(dp).read()
a, b = "<!-- MUTATION-TABLE:BEGIN -->", "<!-- MUTATION-TABLE:END -->"
if a in t and b in t:
    t = t[:t.index(a) + len(a)] + "\n" + txt + "\n" + t[t.index(b):]
    open(dp, "w").write(t)
print(txt)
