#!/usr/bin/env python3
"""Generate the build-time overlay (DESIGN.md §2.6, §4).

 * GOROOT patch: Go map iteration order / map hash seeds become a function of a
   seed the simulator's scheduler owns (runtime.verifSetMapSeed).
 * lock rewrite: sync.RWMutex / sync.Mutex -> simsync.* in the /repo files whose
   locks are held across seam calls (copied from /repo's CURRENT working tree).
 * overlay-only package internal/simsync and small accessor files.

Every textual replacement asserts its count; a mismatch exits 2 (harness
trouble, never a VIOLATION).  Nothing under /repo or GOROOT is modified.
"""
import json, os, re, subprocess, sys

REPO = os.environ.get("VERIF_REPO", "/repo")
VERIF = os.path.dirname(os.path.dirname(os.path.abspath(__file__)))
OUT = os.path.join(os.environ.get("VERIF_OUTDIR", os.path.join(VERIF, "out")), "overlay")
GOROOT = os.environ.get("VERIF_GOROOT", "/opt/veriftools/go1.26.8")


def die(msg):
    print("gen_overlay: " + msg, file=sys.stderr)
    sys.exit(2)


def sub(text, old, new, count, what):
    n = text.count(old)
    if n != count:
        die("%s: expected %d occurrence(s) of %r, found %d" % (what, count, old, n))
    return text.replace(old, new)


def main():
    os.makedirs(OUT, exist_ok=True)
    repl = {}

    def emit(target, content):
        name = re.sub(r"[^A-Za-z0-9_.]", "_", os.path.relpath(target, "/"))
        path = os.path.join(OUT, name)
        old = None
        if os.path.exists(path):
            old = open(path).read()
        if old != content:
            with open(path, "w") as f:
                f.write(content)
        repl[target] = path

    # ---- GOROOT: runtime/rand.go
    p = os.path.join(GOROOT, "src/runtime/rand.go")
    t = open(p).read()
    t = sub(t, "//go:linkname rand\nfunc rand() uint64 {",
            "//go:linkname rand0\nfunc rand0() uint64 {", 1, "runtime/rand.go rand")
    t = sub(t, "func maps_rand() uint64 {\n\treturn rand()\n}",
            "func maps_rand() uint64 {\n\treturn verifSeedVal\n}", 1, "runtime/rand.go maps_rand")
    n_int = len(re.findall(r"(?<![A-Za-z0-9_.])rand\(\)", t))
    if n_int < 2:
        die("runtime/rand.go: expected internal rand() users, found %d" % n_int)
    t = re.sub(r"(?<![A-Za-z0-9_.])rand\(\)", "rand0()", t)
    t += """

// ---- verif overlay: scheduler-owned map seed -------------------------------
var verifSeedVal uint64 = 0x9e3779b97f4a7c15

// rand is what compiler-generated code (stack-allocated maps) calls.
//
//go:nosplit
//go:linkname rand
func rand() uint64 { return verifSeedVal }

//go:linkname verifSetMapSeed
func verifSetMapSeed(s uint64) { verifSeedVal = s }

//go:linkname verifGoID
func verifGoID() uint64 { return getg().goid }
"""
    emit(p, t)

    # ---- GOROOT: runtime/alg.go (fixed hash keys; NaN hashing keeps real randomness)
    p = os.path.join(GOROOT, "src/runtime/alg.go")
    t = open(p).read()
    t = sub(t, "\t\tkey[i] = bootstrapRand()\n", "\t\tkey[i] = 0x243f6a8885a308d3 + uint64(i)*0x9e3779b97f4a7c15\n", 1, "alg.go aes key")
    t = sub(t, "\t\thashkey[i] = uintptr(bootstrapRand())\n", "\t\thashkey[i] = uintptr(0x243f6a8885a308d3 + uint64(i)*0x9e3779b97f4a7c15)\n", 1, "alg.go hashkey")
    t = sub(t, "uintptr(rand())", "uintptr(rand0())", 2, "alg.go NaN")
    emit(p, t)

    # ---- GOROOT: std packages that pull runtime.rand by linkname
    for rel in ["net/dnsclient.go", "hash/maphash/maphash_runtime.go", "math/rand/v2/rand.go",
                "math/rand/rand.go", "os/tempfile.go", "unique/canonmap.go", "internal/sync/hashtriemap.go"]:
        p = os.path.join(GOROOT, "src", rel)
        t = open(p).read()
        t = sub(t, "//go:linkname runtime_rand runtime.rand\n", "//go:linkname runtime_rand runtime.rand0\n", 1, rel)
        emit(p, t)

    # ---- /repo lock rewrites (from the CURRENT working tree)
    locks = {
        "internal/engine/engine.go": None,
        "internal/engine/cache.go": None,
        "internal/xfn/function_runner.go": None,
    }
    for rel in locks:
        p = os.path.join(REPO, rel)
        t = open(p).read()
        n = len(re.findall(r"\bsync\.RWMutex\b", t)) + len(re.findall(r"\bsync\.Mutex\b", t))
        if n < 1:
            die("%s: no sync.RWMutex/sync.Mutex to rewrite" % rel)
        t = re.sub(r"\bsync\.RWMutex\b", "simsync.RWMutex", t)
        t = re.sub(r"\bsync\.Mutex\b", "simsync.Mutex", t)
        # add the import after the package's first import block opener
        if 'import (\n' not in t:
            die("%s: no import block" % rel)
        t = t.replace('import (\n', 'import (\n\t"github.com/crossplane/crossplane/internal/simsync"\n', 1)
        if not re.search(r"\bsync\.", t.replace("simsync.", "")):
            # "sync" no longer used: drop its import
            t = re.sub(r'\n\t"sync"\n', "\n", t, count=1)
        emit(p, t)

    # ---- scheduling points: places where a goroutine can be preempted between two
    # statements that touch state shared by concurrent reconciles, and where no
    # seam call gives the scheduler a chance otherwise. Anchored by pattern; a
    # pattern that no longer matches the current tree is skipped (never a failure).
    points = {
        "internal/controller/pkg/revision/imageback.go": [
            (r"(\tfor _, o := range bo \{\n\t\to\(\w+\)\n\t\}\n)", "ImageBackend.Init: backend options applied"),
        ],
    }
    for rel, pats in points.items():
        p = os.path.join(REPO, rel)
        if not os.path.exists(p):
            continue
        t = open(p).read()
        n = 0
        for pat, label in pats:
            t, k = re.subn(pat, lambda m: m.group(1) + '\tsimsync.Point("%s")\n' % label, t, count=1)
            n += k
        if n == 0:
            print("gen_overlay: no scheduling point inserted in %s (pattern not found)" % rel, file=sys.stderr)
            continue
        if "internal/simsync" not in t:
            t = t.replace('import (\n', 'import (\n\t"github.com/crossplane/crossplane/internal/simsync"\n', 1)
        emit(p, t)

    # ---- overlay-only package internal/simsync
    src = open(os.path.join(VERIF, "sim", "overlaysrc", "simsync.go.txt")).read()
    emit(os.path.join(REPO, "internal/simsync/simsync.go"), src)

    # ---- overlay-only accessor files (add code only)
    accdir = os.path.join(VERIF, "sim", "overlaysrc")
    for fn in sorted(os.listdir(accdir)):
        if fn.endswith(".acc.txt"):
            lines = open(os.path.join(accdir, fn)).read().split("\n", 1)
            target = lines[0].replace("// target: ", "").strip()
            emit(os.path.join(REPO, target), lines[1])

    with open(os.path.join(OUT, "overlay.json"), "w") as f:
        json.dump({"Replace": repl}, f, indent=1, sort_keys=True)
    print(os.path.join(OUT, "overlay.json"))


if __name__ == "__main__":
    main()
