#!/bin/bash
# Build the harness test binary from /repo's CURRENT working tree.
# exit 2 = build trouble (never a VIOLATION).
set -u
export GOFLAGS=-mod=mod GOPROXY=off GOSUMDB=off GOTOOLCHAIN=local
export VERIF_REPO=${VERIF_REPO:-/repo}
V=$(cd "$(dirname "$0")" && pwd)
O=${VERIF_OUTDIR:-$V/out}
GO=/opt/veriftools/go1.26.8/bin/go
mkdir -p $O/bin $O/replays $O/logs $V/out/gocache
export GOCACHE=${GOCACHE:-$V/out/gocache}
python3 $V/tools/gen_gomod.py || exit 2
OVL=$(python3 $V/tools/gen_overlay.py) || exit 2
cd ${VERIF_SIMDIR:-$V/sim} || exit 2
RACE=${VERIF_RACE:+-race}
OUT=$O/bin/harness${VERIF_RACE:+-race}.test
$GO test -c $RACE -modfile=$O/gomod/go.mod -overlay "$OVL" -vet=off -o "$OUT" \
  -ldflags "-X github.com/crossplane/crossplane/internal/version.version=v1.19.0" ./harness 2>&1 | tail -40
if [ ${PIPESTATUS[0]} -ne 0 ]; then echo "BUILD FAILED"; exit 2; fi
echo "$OUT"
