// Package pkgworld assembles W-pkg (DESIGN.md §6): the real package manager,
// revision, resolver reconcilers with the real image backend, parser, linters,
// establisher, dependency manager and on-disk package cache - over the
// simulated API server, registry and disk.
package pkgworld

import (
	"archive/tar"
	"bytes"
	"context"
	"fmt"
	"io"
	"sort"
	"strings"
	"sync"

	ociv1 "github.com/google/go-containerregistry/pkg/v1"
	"github.com/google/go-containerregistry/pkg/v1/empty"
	"github.com/google/go-containerregistry/pkg/v1/mutate"
	"github.com/google/go-containerregistry/pkg/v1/partial"
	"github.com/google/go-containerregistry/pkg/v1/tarball"
	ocitypes "github.com/google/go-containerregistry/pkg/v1/types"
	"github.com/spf13/afero"

	"github.com/crossplane/crossplane-runtime/pkg/parser"

	"github.com/crossplane/crossplane/internal/xpkg"
	"github.com/crossplane/crossplane/internal/xpkg/parser/examples"
	xpkgyaml "github.com/crossplane/crossplane/internal/xpkg/parser/yaml"
)

// Obj is one object of a package stream.
type Obj struct {
	Kind string // CRD | XRD | Composition | ValidatingWebhookConfiguration | ConfigMap
	Name string // short name; the object name is derived
}

// Dep is a declared dependency.
type Dep struct {
	Kind       string // provider | configuration | function
	Repo       string
	Constraint string
}

// Spec describes a package image.
type Spec struct {
	MetaKinds  []string // kinds of the meta objects in the stream (normally one)
	MetaName   string
	Objects    []Obj
	Crossplane string // spec.crossplane.version constraint ("" = none)
	Deps       []Dep
	Form       string // annotated | plain | multi
	Built      bool   // produced by the repo's xpkg builder (only valid packages)
	Bulk       int    // KiB of YAML comments padding the stream (a large package: several cache writes)
	// Nested: the image also carries another package's stream at
	// deps/x/package.yaml, placed so that a scan of the tarball meets it before
	// the real /package.yaml (same annotated layer, or an upper layer of a plain image)
	Nested bool
}

// Key is a canonical string for the spec.
func (s Spec) Key() string {
	var os []string
	for _, o := range s.Objects {
		os = append(os, o.Kind+":"+o.Name)
	}
	var ds []string
	for _, d := range s.Deps {
		ds = append(ds, d.Kind+"="+d.Repo+d.Constraint)
	}
	return fmt.Sprintf("%v|%s|%v|%s|%v|%s|%v|%d|%v", s.MetaKinds, s.MetaName, os, s.Crossplane, ds, s.Form, s.Built, s.Bulk, s.Nested)
}

// ObjectID is the identity (kind/name) the object has in the cluster.
func (o Obj) ObjectID() (kind, name string) {
	switch o.Kind {
	case "CRD":
		return "CustomResourceDefinition", o.Name + "s.pk.example.org"
	case "XRD":
		return "CompositeResourceDefinition", "x" + o.Name + "s.pk.example.org"
	case "Composition":
		return "Composition", "comp-" + o.Name
	case "ValidatingWebhookConfiguration":
		return "ValidatingWebhookConfiguration", "vwc-" + o.Name
	case "ConfigMap":
		return "ConfigMap", "cm-" + o.Name
	}
	return o.Kind, o.Name
}

func (o Obj) yaml() string {
	_, name := o.ObjectID()
	switch o.Kind {
	case "CRD":
		k := strings.ToUpper(o.Name[:1]) + o.Name[1:]
		return fmt.Sprintf(`apiVersion: apiextensions.k8s.io/v1
kind: CustomResourceDefinition
metadata:
  name: %s
spec:
  group: pk.example.org
  names:
    kind: %s
    plural: %ss
    listKind: %sList
    singular: %s
  scope: Cluster
  versions:
  - name: v1
    served: true
    storage: true
    schema:
      openAPIV3Schema:
        type: object
        x-kubernetes-preserve-unknown-fields: true
`, name, k, o.Name, k, o.Name)
	case "XRD":
		k := "X" + strings.ToUpper(o.Name[:1]) + o.Name[1:]
		return fmt.Sprintf(`apiVersion: apiextensions.crossplane.io/v1
kind: CompositeResourceDefinition
metadata:
  name: %s
spec:
  group: pk.example.org
  names:
    kind: %s
    plural: x%ss
  versions:
  - name: v1
    served: true
    referenceable: true
    schema:
      openAPIV3Schema:
        type: object
        properties:
          spec:
            type: object
            properties:
              size:
                type: integer
`, name, k, o.Name)
	case "Composition":
		return fmt.Sprintf(`apiVersion: apiextensions.crossplane.io/v1
kind: Composition
metadata:
  name: %s
spec:
  compositeTypeRef:
    apiVersion: pk.example.org/v1
    kind: X%s
  mode: Pipeline
  pipeline:
  - step: s
    functionRef:
      name: fn-a
`, name, o.Name)
	case "ValidatingWebhookConfiguration":
		return fmt.Sprintf(`apiVersion: admissionregistration.k8s.io/v1
kind: ValidatingWebhookConfiguration
metadata:
  name: %s
webhooks: []
`, name)
	case "ConfigMap":
		return fmt.Sprintf(`apiVersion: v1
kind: ConfigMap
metadata:
  name: %s
  namespace: default
data:
  k: v
`, name)
	}
	return ""
}

func (s Spec) metaYAML(kind string) string {
	var b strings.Builder
	fmt.Fprintf(&b, "apiVersion: meta.pkg.crossplane.io/v1\nkind: %s\nmetadata:\n  name: %s\n", kind, s.MetaName)
	var spec strings.Builder
	if s.Crossplane != "" {
		fmt.Fprintf(&spec, "  crossplane:\n    version: %q\n", s.Crossplane)
	}
	if kind == "Provider" {
		spec.WriteString("  controller:\n    image: example.org/ctrl:v1\n")
	}
	if len(s.Deps) > 0 {
		spec.WriteString("  dependsOn:\n")
		for _, d := range s.Deps {
			fmt.Fprintf(&spec, "  - %s: %s\n    version: %q\n", d.Kind, d.Repo, d.Constraint)
		}
	}
	if spec.Len() == 0 {
		b.WriteString("spec: {}\n")
	} else {
		b.WriteString("spec:\n" + spec.String())
	}
	return b.String()
}

// Stream renders package.yaml.
func (s Spec) Stream() string {
	var docs []string
	for _, k := range s.MetaKinds {
		docs = append(docs, s.metaYAML(k))
	}
	for _, o := range s.Objects {
		docs = append(docs, o.yaml())
	}
	out := strings.Join(docs, "---\n")
	if s.Bulk > 0 {
		// comment lines of pseudo-random text at the end of the last document
		var b strings.Builder
		x := uint64(0x9e3779b97f4a7c15)
		for b.Len() < s.Bulk*1024 {
			x ^= x << 13
			x ^= x >> 7
			x ^= x << 17
			fmt.Fprintf(&b, "# %016x%016x\n", x, x*0x2545f4914f6cdd1d)
		}
		out += b.String()
	}
	return out
}

// ObjectKeys returns the sorted "Kind/name" identities of the package objects.
func (s Spec) ObjectKeys() []string {
	var out []string
	for _, o := range s.Objects {
		k, n := o.ObjectID()
		out = append(out, k+"/"+n)
	}
	sort.Strings(out)
	return out
}

var (
	imgMu    sync.Mutex
	imgCache = map[string]ociv1.Image{}
)

func tarLayer(files map[string]string) (ociv1.Layer, error) {
	var buf bytes.Buffer
	tw := tar.NewWriter(&buf)
	var names []string
	for n := range files {
		names = append(names, n)
	}
	sort.Strings(names)
	for _, n := range names {
		c := files[n]
		if err := tw.WriteHeader(&tar.Header{Name: n, Mode: 0o644, Size: int64(len(c))}); err != nil {
			return nil, err
		}
		if _, err := io.WriteString(tw, c); err != nil {
			return nil, err
		}
	}
	if err := tw.Close(); err != nil {
		return nil, err
	}
	b := buf.Bytes()
	return tarball.LayerFromOpener(func() (io.ReadCloser, error) { return io.NopCloser(bytes.NewReader(b)), nil })
}

// wire serves the image from its raw manifest/config bytes, as a pulled image would be.
type wire struct {
	img      ociv1.Image
	manifest []byte
	config   []byte
	blobs    map[ociv1.Hash]*blob
}

// blob is a layer as a registry holds it: compressed bytes.
type blob struct {
	digest ociv1.Hash
	mt     ocitypes.MediaType
	data   []byte
}

func (b *blob) Digest() (ociv1.Hash, error)            { return b.digest, nil }
func (b *blob) Compressed() (io.ReadCloser, error)     { return io.NopCloser(bytes.NewReader(b.data)), nil }
func (b *blob) Size() (int64, error)                   { return int64(len(b.data)), nil }
func (b *blob) MediaType() (ocitypes.MediaType, error) { return b.mt, nil }

func (w *wire) RawManifest() ([]byte, error)   { return w.manifest, nil }
func (w *wire) RawConfigFile() ([]byte, error) { return w.config, nil }
func (w *wire) MediaType() (ocitypes.MediaType, error) {
	return w.img.MediaType()
}
func (w *wire) LayerByDigest(h ociv1.Hash) (partial.CompressedLayer, error) {
	if b, ok := w.blobs[h]; ok {
		return b, nil
	}
	return nil, fmt.Errorf("no layer %s", h)
}

// Image builds (once per distinct spec and process) the image for a spec.
func Image(s Spec) (ociv1.Image, error) {
	key := s.Key()
	imgMu.Lock()
	if img, ok := imgCache[key]; ok {
		imgMu.Unlock()
		return img, nil
	}
	imgMu.Unlock()
	var img ociv1.Image
	var err error
	if s.Built {
		img, err = buildWithRepoBuilder(s)
	} else {
		img, err = assemble(s)
	}
	if err != nil {
		return nil, err
	}
	// normalise: what a registry would serve
	m, err := img.RawManifest()
	if err != nil {
		return nil, err
	}
	c, err := img.RawConfigFile()
	if err != nil {
		return nil, err
	}
	// layers as stored blobs (no on-the-fly compression when they are read)
	blobs := map[ociv1.Hash]*blob{}
	ls, err := img.Layers()
	if err != nil {
		return nil, err
	}
	for _, l := range ls {
		d, err := l.Digest()
		if err != nil {
			return nil, err
		}
		mt, err := l.MediaType()
		if err != nil {
			return nil, err
		}
		rc, err := l.Compressed()
		if err != nil {
			return nil, err
		}
		data, err := io.ReadAll(rc)
		_ = rc.Close()
		if err != nil {
			return nil, err
		}
		blobs[d] = &blob{digest: d, mt: mt, data: data}
	}
	nimg, err := partial.CompressedToImage(&wire{img: img, manifest: m, config: c, blobs: blobs})
	if err != nil {
		return nil, err
	}
	imgMu.Lock()
	imgCache[key] = nimg
	imgMu.Unlock()
	return nimg, nil
}

func assemble(s Spec) (ociv1.Image, error) {
	files := map[string]string{xpkg.StreamFile: s.Stream()}
	var nested map[string]string
	if s.Nested && len(s.MetaKinds) > 0 {
		other := Spec{MetaKinds: s.MetaKinds[:1], MetaName: "nested-" + s.MetaName, Objects: []Obj{{Kind: map[string]string{"Configuration": "XRD"}[s.MetaKinds[0]], Name: "nested"}}}
		if other.Objects[0].Kind == "" {
			other.Objects[0].Kind = "CRD"
		}
		nested = map[string]string{"deps/x/" + xpkg.StreamFile: other.Stream()}
		if s.Form != "plain" {
			files["deps/x/"+xpkg.StreamFile] = other.Stream()
		}
	}
	l, err := tarLayer(files)
	if err != nil {
		return nil, err
	}
	ann := map[string]string{xpkg.AnnotationKey: xpkg.PackageAnnotation}
	switch s.Form {
	case "plain":
		if nested != nil {
			up, err := tarLayer(nested)
			if err != nil {
				return nil, err
			}
			return mutate.AppendLayers(empty.Image, l, up)
		}
		return mutate.AppendLayers(empty.Image, l)
	case "multi":
		l2, err := tarLayer(map[string]string{xpkg.StreamFile: s.Stream() + "---\napiVersion: v1\nkind: ConfigMap\nmetadata:\n  name: extra\n"})
		if err != nil {
			return nil, err
		}
		return mutate.Append(empty.Image, mutate.Addendum{Layer: l, Annotations: ann}, mutate.Addendum{Layer: l2, Annotations: ann})
	default:
		return mutate.Append(empty.Image, mutate.Addendum{Layer: l, Annotations: ann})
	}
}

// buildWithRepoBuilder runs `crossplane xpkg build` + the annotation `xpkg push` adds.
func buildWithRepoBuilder(s Spec) (ociv1.Image, error) {
	fs := afero.NewMemMapFs()
	if err := afero.WriteFile(fs, "/pkg/crossplane.yaml", []byte(s.metaYAML(s.MetaKinds[0])), 0o644); err != nil {
		return nil, err
	}
	for i, o := range s.Objects {
		if err := afero.WriteFile(fs, fmt.Sprintf("/pkg/objs/o%02d.yaml", i), []byte(o.yaml()), 0o644); err != nil {
			return nil, err
		}
	}
	pp, err := xpkgyaml.New()
	if err != nil {
		return nil, err
	}
	b := xpkg.New(
		parser.NewFsBackend(fs, parser.FsDir("/pkg"), parser.FsFilters(parser.SkipDirs(), parser.SkipNotYAML(), parser.SkipEmpty())),
		parser.NewFsBackend(fs, parser.FsDir("/pkg/examples"), parser.FsFilters(parser.SkipDirs(), parser.SkipNotYAML(), parser.SkipEmpty())),
		pp, examples.New())
	img, _, err := b.Build(context.Background())
	if err != nil {
		return nil, fmt.Errorf("xpkg build: %w", err)
	}
	return xpkg.AnnotateLayers(img)
}
