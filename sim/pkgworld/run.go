package pkgworld

import (
	"context"
	"fmt"
	"os"
	"sort"
	"strings"
	"time"

	"github.com/spf13/afero"
	kerrors "k8s.io/apimachinery/pkg/api/errors"
	metav1 "k8s.io/apimachinery/pkg/apis/meta/v1"
	"k8s.io/apimachinery/pkg/apis/meta/v1/unstructured"
	"k8s.io/apimachinery/pkg/runtime"

	xpv1 "github.com/crossplane/crossplane-runtime/apis/common/v1"
	"k8s.io/apimachinery/pkg/runtime/schema"
	"k8s.io/apimachinery/pkg/types"
	"k8s.io/apimachinery/pkg/util/validation/field"
	"k8s.io/utils/ptr"
	"sigs.k8s.io/controller-runtime/pkg/reconcile"
	sigyaml "sigs.k8s.io/yaml"

	pkgv1 "github.com/crossplane/crossplane/apis/pkg/v1"
	"github.com/crossplane/crossplane/internal/simsync"
	"github.com/crossplane/crossplane/internal/xpkg"

	"github.com/crossplane/crossplane/verifsim/kit"
	"github.com/crossplane/crossplane/verifsim/runner"
	"github.com/crossplane/crossplane/verifsim/sim"
	"github.com/crossplane/crossplane/verifsim/simapi"
)

// Pkg is one installed package of the workload.
type Pkg struct {
	Kind   string
	Name   string
	Repo   string
	Tags   []string
	Ignore bool // ignoreCrossplaneConstraints
	Cur    int
	Manual bool // revisionActivationPolicy: Manual
}

// Mode selects which oracles a run evaluates.
type Mode struct {
	C15 bool
	C16 bool
	C02 bool
}

var objPool = []string{"alpha", "beta", "gamma"}

func drawSpec(t *sim.Tape, kind, metaName string, invalidOK bool) Spec {
	s := Spec{MetaKinds: []string{kind}, MetaName: metaName, Form: "annotated"}
	okKinds := map[string][]string{"Provider": {"CRD"}, "Configuration": {"XRD", "Composition"}, "Function": {"CRD"}}[kind]
	n := t.Next(4)
	seen := map[string]bool{}
	for i := 0; i < n; i++ {
		o := Obj{Kind: okKinds[t.Next(len(okKinds))], Name: objPool[t.Next(len(objPool))]}
		if seen[o.Kind+o.Name] {
			continue
		}
		seen[o.Kind+o.Name] = true
		s.Objects = append(s.Objects, o)
	}
	valid := true
	if invalidOK {
		switch t.Next(12) {
		case 0:
			s.MetaKinds = []string{PkgKinds[(indexOf(PkgKinds, kind)+1+t.Next(2))%3]}
			valid = false
		case 1:
			s.MetaKinds = nil
			valid = false
		case 2:
			s.MetaKinds = []string{kind, kind}
			valid = false
		case 3:
			bad := map[string][]string{"Provider": {"Composition", "ConfigMap", "XRD"}, "Configuration": {"CRD", "ConfigMap", "ValidatingWebhookConfiguration"}, "Function": {"Composition", "ConfigMap", "XRD", "ValidatingWebhookConfiguration"}}[kind]
			s.Objects = append(s.Objects, Obj{Kind: bad[t.Next(len(bad))], Name: "zeta"})
			valid = false
		case 4:
			s.Crossplane = ">=v9.0.0"
		case 5:
			s.Crossplane = ">=v1.0.0"
		case 6:
			s.Form = "multi"
			valid = false
		case 7:
			s.Form = "plain"
		}
	}
	if invalidOK && s.Form != "multi" && len(s.MetaKinds) > 0 && t.Next(6) == 0 {
		s.Nested = true
	}
	// valid, annotated packages usually go through the repo's own builder
	if valid && s.Form == "annotated" && !s.Nested && t.Next(4) > 0 {
		s.Built = true
	}
	// now and then a large package: its cache entry is written in several chunks
	if invalidOK && !s.Built && t.Next(3) == 0 {
		s.Bulk = 100 + 50*t.Next(3)
	}
	return s
}

func indexOf(ss []string, s string) int {
	for i, x := range ss {
		if x == s {
			return i
		}
	}
	return 0
}

// state of a run
type run struct {
	w      *W
	mode   Mode
	pkgs   []*Pkg
	taskOf map[int]string // revision reconcile task -> revision name
	// C16 bookkeeping
	rejectName string // writes of this object name are rejected by the API server while rejectOn
	rejectOn   bool
	rejectSeq  int // log position of the last change of rejectOn
	foreign    map[string]bool
	instances  int
	guard      map[simapi.ObjKey]string
	damaged    map[string]bool // cache entries (revision names) damaged on disk by the environment
	unsigned   map[string]bool // images (repo:tag) whose signature verification never succeeds
}

// Run is the generic W-pkg run for C15 / C16.
func Run(s *sim.Sim, res *runner.Result, mode Mode) {
	t := s.Tape
	o := Opts{MaxEstablishers: 1 + t.Next(3), DiskFaults: mode.C15}
	if mode.C15 {
		o.Verify = t.Next(3) == 0
	}
	w, err := New(s, res, o)
	if err != nil {
		res.Trouble = err.Error()
		return
	}
	// scheduling points the build-time overlay inserted into the code under test
	simsync.Hook = kit.NewLockHook(s, func() *sim.Proc { return w.Proc })
	defer func() { simsync.Hook = nil }()
	r := &run{w: w, mode: mode, taskOf: map[int]string{}, foreign: map[string]bool{}, unsigned: map[string]bool{}}
	nPkg := 1 + t.Next(2)
	for i := 0; i < nPkg; i++ {
		kind := PkgKinds[t.Next(3)]
		p := &Pkg{Kind: kind, Name: fmt.Sprintf("pkg%d", i), Repo: fmt.Sprintf("acme/pkg%d", i), Tags: []string{"v1.0.0", "v1.1.0"}, Ignore: t.Next(3) == 0}
		if mode.C16 {
			// manual activation: new revisions start inactive and establish
			// ownership only, until the user activates one
			p.Manual = t.Next(3) == 0
		}
		for _, tag := range p.Tags {
			spec := drawSpec(t, kind, p.Name, mode.C15)
			if err := w.Publish(p.Repo, tag, spec); err != nil {
				res.Trouble = fmt.Sprintf("publish %s:%s: %v", p.Repo, tag, err)
				return
			}
			if o.Verify && t.Next(3) == 0 {
				r.unsigned[p.Repo+":"+tag] = true
			}
		}
		r.pkgs = append(r.pkgs, p)
	}
	chaos := 40 + t.Next(220)
	kit.DrawFaults(s, []sim.Outcome{sim.ErrBefore, sim.ErrAfter, sim.Conflict, sim.CrashBefore, sim.CrashAfter})
	var wl []string
	for _, p := range r.pkgs {
		for _, tag := range p.Tags {
			sp := w.Published[p.Repo+":"+tag]
			v, why := Valid(p.Kind, sp, p.Ignore)
			wl = append(wl, fmt.Sprintf("%s %s:%s metas=%v objs=%v form=%s built=%v xp=%q valid=%v %s", p.Kind, p.Repo, tag, sp.MetaKinds, sp.ObjectKeys(), sp.Form, sp.Built, sp.Crossplane, v, why))
		}
	}
	res.Workload = wl
	if mode.C16 || mode.C02 {
		r.setupC16(t)
	}
	if mode.C02 {
		r.setupC02(t)
	}
	for _, p := range r.pkgs {
		p := p
		if err := w.InstallPackage(p.Kind, p.Name, p.Repo, p.Tags[0], func(pk pkgv1.Package) {
			if p.Ignore {
				pk.SetIgnoreCrossplaneConstraints(ptr.To(true))
			}
			pk.SetSkipDependencyResolution(ptr.To(true))
			pk.SetRevisionHistoryLimit(ptr.To(int64(2)))
			if p.Manual {
				pk.SetActivationPolicy(ptr.To(pkgv1.ManualActivation))
			}
		}); err != nil {
			res.Trouble = "install package: " + err.Error()
			return
		}
	}
	w.Store.OnLog = append(w.Store.OnLog, r.onLog)
	w.OnDone = r.onDone
	hookStart := func() {
		for _, c := range w.Ctrls {
			c := c
			if !strings.HasPrefix(c.Name, "revision/") {
				continue
			}
			prev := c.OnStart
			c.OnStart = func(k types.NamespacedName, tk *sim.Task) {
				if prev != nil {
					prev(k, tk)
				}
				r.taskOf[tk.ID] = k.Name
			}
		}
	}
	hookStart()

	s.Phase = "chaos"
	for i := 0; i < chaos && len(s.Violations) == 0; i++ {
		acts := w.ReconcileActions()
		if w.Proc.Dead {
			acts = append(acts, sim.Action{Key: "restart pkg", Weight: 40, Run: func() { w.Restart(); hookStart() }})
		}
		for _, p := range r.pkgs {
			p := p
			acts = append(acts, sim.Action{Key: "user switches " + p.Name + " to the other version", Weight: 3, Run: func() { r.switchVersion(p) }})
		}
		if mode.C15 {
			acts = append(acts, sim.Action{Key: "disk: corrupt or truncate a cache entry", Weight: 2, Run: func() { r.damageCache(t) }})
		}
		if o.Verify {
			acts = append(acts, sim.Action{Key: "signature controller: reports on a revision", Weight: 8, Run: func() { r.verifyOne(t, false) }})
		}
		if mode.C16 {
			acts = append(acts, sim.Action{Key: "user creates an instance of a package CRD", Weight: 2, Run: r.createInstance})
			if r.rejectName != "" {
				acts = append(acts, sim.Action{Key: "the API server starts/stops rejecting " + r.rejectName, Weight: 1, Run: r.toggleReject})
			}
			acts = append(acts, sim.Action{Key: "somebody deletes a package CRD", Weight: 3, Run: func() { r.deleteObjectOutOfBand(t) }})
			for _, p := range r.pkgs {
				if p.Manual {
					p := p
					acts = append(acts, sim.Action{Key: "user activates a revision of " + p.Name, Weight: 3, Run: func() { r.activateOne(p, t) }})
				}
			}
			for _, k := range w.Store.GCCandidates() {
				k := k
				acts = append(acts, sim.Action{Key: "k8s-gc " + k.String(), Weight: 6, Run: func() { w.Store.GCStep(k) }})
			}
		}
		acts = append(acts, sim.Action{Key: "advance 1s", Weight: 1, Run: func() { s.Advance(time.Second) }})
		if !s.StepOnce(acts, 30) {
			break
		}
		if mode.C16 {
			r.observeC16()
		}
		if mode.C02 {
			r.observeC02()
		}
	}
	s.Phase = "heal"
	w.Disk.SetPlan(-1, "")
	if w.Proc.Dead {
		w.Restart()
		hookStart()
	}
	if o.Verify {
		r.verifyOne(t, true)
	}
	quiet := w.Heal(10, func() {
		if o.Verify {
			r.verifyOne(t, true)
		}
		if mode.C16 {
			for _, k := range w.Store.GCCandidates() {
				w.Store.GCStep(k)
			}
			r.observeC16()
		}
	})
	if !quiet {
		res.Inconclusive = "no-quiescence"
	} else if len(s.Violations) == 0 {
		r.final()
	}
	for k, v := range w.Disk.Fired {
		s.Faults[k] += v
	}
	res.StateHashes = append(res.StateHashes, w.Store.StateHash())
	s.Shutdown(w.Proc)
}

func (r *run) switchVersion(p *Pkg) {
	ctx := context.Background()
	u := &unstructured.Unstructured{}
	u.SetGroupVersionKind(PkgGK[p.Kind].WithVersion("v1"))
	if err := r.w.Direct.Get(ctx, types.NamespacedName{Name: p.Name}, u); err != nil {
		return
	}
	p.Cur = 1 - p.Cur
	_ = unstructured.SetNestedField(u.Object, Registry+"/"+p.Repo+":"+p.Tags[p.Cur], "spec", "package")
	_ = r.w.Direct.Update(ctx, u)
}

func (r *run) damageCache(t *sim.Tape) {
	if os.Getenv("VERIF_NO_DAMAGE") != "" {
		return // investigation aid: only the code's own (failed, torn) writes touch the cache
	}
	fis, err := afero.ReadDir(r.w.MemFs, "/cache")
	if err != nil || len(fis) == 0 {
		return
	}
	sort.Slice(fis, func(i, j int) bool { return fis[i].Name() < fis[j].Name() })
	fi := fis[t.Next(len(fis))]
	path := "/cache/" + fi.Name()
	b, err := afero.ReadFile(r.w.MemFs, path)
	if err != nil || len(b) == 0 {
		return
	}
	if t.Next(2) == 0 {
		b = b[:t.Next(len(b))]
		r.w.S.Faults["disk-truncated-entry"]++
	} else {
		b[t.Next(len(b))] ^= 0x5a
		r.w.S.Faults["disk-corrupt-byte"]++
	}
	_ = afero.WriteFile(r.w.MemFs, path, b, 0o644)
	if r.damaged == nil {
		r.damaged = map[string]bool{}
	}
	r.damaged[strings.TrimSuffix(fi.Name(), ".gz")] = true
}

// verifiedRead returns the status of the Verified condition of the revision as
// the task read it (its last successful get of the revision).
func (r *run) verifiedRead(taskID int, revName string) string {
	for i := len(r.w.Store.Log) - 1; i >= 0; i-- {
		l := r.w.Store.Log[i]
		if l.TaskID == taskID && l.Read && l.Verb == "get" && revisionKind(l.Key.Kind) && l.Key.Name == revName && l.Err == nil && l.After != nil {
			return condStatus(l.After, "Verified")
		}
	}
	return "unread"
}

// verifyOne plays the signature verification controller for one revision (all
// of them when all is set): signed images verify, unsigned ones fail or stay
// incomplete.
func (r *run) verifyOne(t *sim.Tape, all bool) {
	w := r.w
	ctx := context.Background()
	var keys []simapi.ObjKey
	for _, k := range PkgKinds {
		keys = append(keys, w.Store.KeysOf(RevGK[k])...)
	}
	if len(keys) == 0 {
		return
	}
	if !all {
		keys = []simapi.ObjKey{keys[t.Next(len(keys))]}
	}
	for _, k := range keys {
		m := w.Store.Peek(k)
		img, _, _ := unstructured.NestedString(m, "spec", "image")
		var c xpv1.Condition
		switch {
		case !r.unsigned[strings.TrimPrefix(img, Registry+"/")]:
			c = pkgv1.VerificationSucceeded("cfg")
		case all || t.Next(2) == 0:
			c = pkgv1.VerificationFailed("cfg", fmt.Errorf("no matching signatures"))
		default:
			c = pkgv1.VerificationIncomplete(fmt.Errorf("registry unavailable"))
		}
		if condStatus(m, "Verified") == string(c.Status) {
			continue
		}
		u := &unstructured.Unstructured{Object: runtime.DeepCopyJSON(m)}
		cl, _, _ := unstructured.NestedSlice(u.Object, "status", "conditions")
		var out []any
		for _, x := range cl {
			if xm, _ := x.(map[string]any); xm != nil && xm["type"] != "Verified" {
				out = append(out, x)
			}
		}
		out = append(out, map[string]any{"type": "Verified", "status": string(c.Status), "reason": string(c.Reason), "message": c.Message, "lastTransitionTime": "2026-01-01T00:00:00Z"})
		_ = unstructured.SetNestedSlice(u.Object, out, "status", "conditions")
		if w.Direct.Status().Update(ctx, u) == nil {
			w.S.Probe("signature-verdict/" + string(c.Status))
		}
	}
}

// specOfRevision returns the image spec a revision stands for.
func (r *run) specOfRevision(rev map[string]any) (Spec, *Pkg, bool) {
	img, _, _ := unstructured.NestedString(rev, "spec", "image")
	img = strings.TrimPrefix(img, Registry+"/")
	sp, ok := r.w.Published[img]
	if !ok {
		return Spec{}, nil, false
	}
	parent := (&unstructured.Unstructured{Object: rev}).GetLabels()[pkgv1.LabelParentPackage]
	for _, p := range r.pkgs {
		if p.Name == parent {
			return sp, p, true
		}
	}
	return sp, nil, false
}

func pkgObjectKind(kind string) bool {
	switch kind {
	case "CustomResourceDefinition", "CompositeResourceDefinition", "Composition", "ValidatingWebhookConfiguration", "MutatingWebhookConfiguration", "ConfigMap":
		return true
	}
	return false
}

func revisionKind(kind string) bool {
	return strings.HasSuffix(kind, "Revision") && kind != "CompositionRevision"
}

// onLog judges every write of a revision reconcile on a package object.
func (r *run) onLog(e *simapi.LogEntry) {
	w := r.w
	if e.Read || e.Injected != "" {
		return
	}
	if e.Actor == "gc" && r.mode.C16 {
		r.judgeGC(e)
		return
	}
	revName, ok := r.taskOf[e.TaskID]
	if ok && pkgObjectKind(e.Key.Kind) && e.Verb == "create" && !e.DryRun && e.Err != nil && kerrors.IsAlreadyExists(e.Err) {
		who := "uncontrolled-object"
		if cur := r.obj(e.Key.Kind, e.Key.Name); cur != nil {
			if _, ckind, cname := controllerOf(cur); ckind != "" {
				who = "object-of-a-stranger"
				for _, k := range PkgKinds {
					if m := w.Store.Peek(simapi.ObjKey{Group: RevGK[k].Group, Kind: RevGK[k].Kind, Name: cname}); m != nil {
						who = "object-of-another-revision"
						if rv := w.Store.Peek(simapi.ObjKey{Group: RevGK[k].Group, Kind: RevGK[k].Kind, Name: revName}); rv != nil &&
							(&unstructured.Unstructured{Object: m}).GetLabels()[pkgv1.LabelParentPackage] != (&unstructured.Unstructured{Object: rv}).GetLabels()[pkgv1.LabelParentPackage] {
							who = "object-of-another-package"
						}
					}
				}
			}
		}
		w.S.Probe("revision-lost-a-create-race/" + who)
	}
	if !ok || !pkgObjectKind(e.Key.Kind) || e.Err != nil {
		return
	}
	var rev map[string]any
	for _, k := range PkgKinds {
		if m := w.Store.Peek(simapi.ObjKey{Group: RevGK[k].Group, Kind: RevGK[k].Kind, Name: revName}); m != nil {
			rev = m
		}
	}
	if rev == nil {
		return
	}
	sp, p, ok := r.specOfRevision(rev)
	if !ok || p == nil {
		return
	}
	if e.DryRun {
		return
	}
	id := e.Key.Kind + "/" + e.Key.Name
	if r.mode.C15 && w.Opts.Verify {
		if st := r.verifiedRead(e.TaskID, revName); st != "True" {
			w.S.Violate("C15/unverified-package-established", fmt.Sprintf("revision %s installs %s although signature verification is enabled and the revision's Verified condition was %q when this reconcile read it", revName, id, st))
			return
		}
		w.S.Probe("establish-write-of-verified-revision")
	}
	if r.mode.C15 {
		if v, why := Valid(p.Kind, sp, p.Ignore); !v {
			w.S.Violate("C15/invalid-package-established", fmt.Sprintf("revision %s installs %s although its package must be rejected (%s)", revName, id, why))
			return
		}
		in := false
		for _, k := range sp.ObjectKeys() {
			in = in || k == id
		}
		if !in {
			w.S.Violate("C15/established-object-not-in-image", fmt.Sprintf("revision %s wrote %s, which is not in the package stream of its image (%v)", revName, id, sp.ObjectKeys()))
		}
		w.S.Probe("establish-write")
	}
	if r.mode.C16 && e.Before != nil && e.After != nil && e.Changed {
		// an object another package's revision controls is neither modified nor taken over
		if _, ckind, cname := controllerOf(e.Before); revisionKind(ckind) {
			other := ""
			for _, k := range PkgKinds {
				if m := w.Store.Peek(simapi.ObjKey{Group: RevGK[k].Group, Kind: RevGK[k].Kind, Name: cname}); m != nil {
					other = (&unstructured.Unstructured{Object: m}).GetLabels()[pkgv1.LabelParentPackage]
				}
			}
			if other != "" && other != p.Name && maskPlainOwners(e.Before) != maskPlainOwners(e.After) {
				w.S.Violate("C16/modified-object-of-another-package", fmt.Sprintf("revision %s (package %s) committed %s on %s, which revision %s of package %s controls", revName, p.Name, e.Verb, id, cname, other))
			}
		}
	}
	if r.mode.C16 && e.Verb == "create" {
		// only an active revision creates objects (judged on what the reconcile
		// read: the revision's desiredState at its own Get)
		if st := r.desiredStateRead(e.TaskID, revName); st != "" && st != "Active" {
			w.S.Violate("C16/inactive-revision-created-object", fmt.Sprintf("revision %s (desiredState %s) created %s", revName, st, id))
		}
	}
}

// objectRefsRead returns how many status.objectRefs the revision had when the task read it (-1: not read).
func (r *run) objectRefsRead(taskID int, revName string) int {
	for i := len(r.w.Store.Log) - 1; i >= 0; i-- {
		l := r.w.Store.Log[i]
		if l.TaskID == taskID && l.Read && l.Verb == "get" && l.Key.Name == revName && revisionKind(l.Key.Kind) && l.After != nil {
			return len(objectRefs(l.After))
		}
	}
	return -1
}

func (r *run) desiredStateRead(taskID int, revName string) string {
	for i := len(r.w.Store.Log) - 1; i >= 0; i-- {
		l := r.w.Store.Log[i]
		if l.TaskID == taskID && l.Read && l.Verb == "get" && l.Key.Name == revName && revisionKind(l.Key.Kind) && l.After != nil {
			s, _, _ := unstructured.NestedString(l.After, "spec", "desiredState")
			return s
		}
	}
	return ""
}

// onDone judges a finished revision reconcile.
func (r *run) onDone(ctrl string, key types.NamespacedName, t *sim.Task, startSeq int, res reconcile.Result, err error) {
	if !strings.HasPrefix(ctrl, "revision/") {
		return
	}
	w := r.w
	if err != nil && os.Getenv("VERIF_DEBUG") != "" {
		fmt.Println("DEBUG", ctrl, key.Name, err)
	}
	kind := strings.TrimPrefix(ctrl, "revision/")
	rev := w.Store.Peek(simapi.ObjKey{Group: RevGK[kind].Group, Kind: RevGK[kind].Kind, Name: key.Name})
	if rev == nil {
		return
	}
	sp, p, ok := r.specOfRevision(rev)
	if !ok || p == nil {
		return
	}
	var mine []*simapi.LogEntry
	for _, e := range w.Store.Log[startSeq:] {
		if e.TaskID == t.ID {
			mine = append(mine, e)
		}
	}
	healthyNow := false
	for _, e := range mine {
		if !e.Read && e.Verb == "update-status" && e.Err == nil && e.Key.Name == key.Name && e.After != nil {
			healthyNow = condStatus(e.After, "Healthy") == "True"
		}
	}
	state, _, _ := unstructured.NestedString(rev, "spec", "desiredState")
	if r.mode.C15 && w.Opts.Verify && healthyNow {
		if st := r.verifiedRead(t.ID, key.Name); st != "True" {
			w.S.Violate("C15/unverified-package-healthy", fmt.Sprintf("revision %s is reported healthy although its Verified condition was %q when the reconcile read it", key.Name, st))
		}
	}
	if r.mode.C15 && t.Normal && healthyNow {
		if v, why := Valid(p.Kind, sp, p.Ignore); !v {
			w.S.Violate("C15/invalid-package-healthy", fmt.Sprintf("revision %s is reported healthy although its package must be rejected (%s)", key.Name, why))
		} else if state == "Active" || len(objectRefs(rev)) > 0 {
			got := objectRefs(rev)
			want := sp.ObjectKeys()
			if strings.Join(got, ",") != strings.Join(want, ",") {
				w.S.Violate("C15/installed-objects-differ-from-image", fmt.Sprintf("revision %s is healthy with objects %v but its image declares %v", key.Name, got, want))
			}
			if state == "Active" {
				for _, k := range want {
					parts := strings.SplitN(k, "/", 2)
					if !r.exists(parts[0], parts[1]) {
						w.S.Violate("C15/declared-object-missing", fmt.Sprintf("revision %s is healthy and active but %s does not exist", key.Name, k))
					}
				}
			}
			w.S.Probe("healthy-revision-checked")
			if sp.Built {
				w.S.Probe("healthy-revision-of-built-image")
			}
		}
	}
	if r.mode.C16 {
		r.judgeC16(key.Name, kind, rev, sp, p, t, mine, healthyNow)
	}
}

func condStatus(obj map[string]any, typ string) string {
	conds, _, _ := unstructured.NestedSlice(obj, "status", "conditions")
	for _, c := range conds {
		m, _ := c.(map[string]any)
		if m["type"] == typ {
			s, _ := m["status"].(string)
			return s
		}
	}
	return ""
}

func objectRefs(rev map[string]any) []string {
	var out []string
	refs, _, _ := unstructured.NestedSlice(rev, "status", "objectRefs")
	for _, x := range refs {
		m, _ := x.(map[string]any)
		out = append(out, fmt.Sprintf("%v/%v", m["kind"], m["name"]))
	}
	sort.Strings(out)
	return out
}

var kindGroup = map[string]string{"CustomResourceDefinition": "apiextensions.k8s.io", "CompositeResourceDefinition": "apiextensions.crossplane.io", "Composition": "apiextensions.crossplane.io",
	"ValidatingWebhookConfiguration": "admissionregistration.k8s.io", "MutatingWebhookConfiguration": "admissionregistration.k8s.io", "ConfigMap": ""}

func (r *run) obj(kind, name string) map[string]any {
	ns := ""
	if kind == "ConfigMap" {
		ns = "default"
	}
	return r.w.Store.Peek(simapi.ObjKey{Group: kindGroup[kind], Kind: kind, NS: ns, Name: name})
}

func (r *run) exists(kind, name string) bool { return r.obj(kind, name) != nil }

// ---------------------------------------------------------------- C02

// setupC02: a stranger controls the revision name the manager will derive for
// one version, and (via setupC16) some package objects.
func (r *run) setupC02(t *sim.Tape) {
	ctx := context.Background()
	w := r.w
	r.guard = map[simapi.ObjKey]string{}
	cm := &unstructured.Unstructured{Object: map[string]any{"apiVersion": "v1", "kind": "ConfigMap", "metadata": map[string]any{"name": "stranger", "namespace": "default"}}}
	_ = w.Direct.Create(ctx, cm)
	for _, p := range r.pkgs {
		if t.Next(2) == 0 {
			continue
		}
		tag := p.Tags[t.Next(len(p.Tags))]
		d := w.Reg.TagMap[Registry+"/"+p.Repo+":"+tag]
		name := xpkg.FriendlyID(p.Name, d)
		u := &unstructured.Unstructured{Object: map[string]any{"apiVersion": "pkg.crossplane.io/v1", "kind": RevGK[p.Kind].Kind,
			"metadata": map[string]any{"name": name, "labels": map[string]any{"theirs": "yes"}},
			"spec":     map[string]any{"desiredState": "Inactive", "image": "registry.example.org/other/thing:v9", "revision": int64(7)}}}
		what := "placed/package-revision-name"
		if t.Next(2) == 0 {
			// the still active revision of an earlier incarnation of the package
			// (deleted and created again under the same name): it carries the
			// parent-package label and is controlled by the old object's UID
			u.SetLabels(map[string]string{pkgv1.LabelParentPackage: p.Name})
			_ = unstructured.SetNestedField(u.Object, "Active", "spec", "desiredState")
			_ = unstructured.SetNestedField(u.Object, Registry+"/"+p.Repo+":"+tag, "spec", "image")
			_ = unstructured.SetNestedField(u.Object, int64(1), "spec", "revision")
			what = "placed/revision-of-earlier-package-incarnation"
		}
		u.SetOwnerReferences(ownerRefs("v1", "ConfigMap", "stranger", "stranger-uid", true))
		if w.Direct.Create(ctx, u) == nil {
			k := simapi.ObjKey{Group: RevGK[p.Kind].Group, Kind: RevGK[p.Kind].Kind, Name: name}
			r.guard[k] = simapi.Digest(w.Store.Peek(k))
			w.S.Probe(what)
		}
	}
	for k := range r.foreign {
		parts := strings.SplitN(k, "/", 2)
		ok := simapi.ObjKey{Group: kindGroup[parts[0]], Kind: parts[0], Name: parts[1]}
		if m := w.Store.Peek(ok); m != nil {
			r.guard[ok] = simapi.Digest(m)
			w.S.Probe("placed/package-object")
		}
	}
	w.Store.OnLog = append(w.Store.OnLog, func(e *simapi.LogEntry) {
		if e.Read || e.Injected != "" || e.DryRun || e.Err != nil || e.Actor != "pkg" {
			return
		}
		if _, ok := r.guard[e.Key]; !ok || !(e.Changed || e.Removed) {
			return
		}
		if revisionKind(e.Key.Kind) {
			// only the package manager writes a revision on behalf of an owner (the
			// revision controller's own bookkeeping on its primary object is not
			// an act on behalf of a package)
			if !strings.HasPrefix(e.TaskLabel, "package/") {
				return
			}
		} else if !e.Removed && maskPlainOwners(e.Before) == maskPlainOwners(e.After) {
			// out of scope by the property's own words: the plain (non-controller)
			// owner reference an inactive package revision adds
			w.S.Probe("inactive-revision-added-plain-owner-to-foreign-object")
			r.guard[e.Key] = simapi.Digest(e.After)
			return
		}
		w.S.Violate("C02/write-committed-on-foreign-object/"+e.Key.Kind, fmt.Sprintf("%s committed %s on %s %s, which another owner controls", e.TaskLabel, e.Verb, e.Key.Kind, e.Key.Name))
	})
}

// maskPlainOwners digests an object without its non-controller owner references.
func maskPlainOwners(m map[string]any) string {
	if m == nil {
		return ""
	}
	c := runtime.DeepCopyJSON(m)
	u := &unstructured.Unstructured{Object: c}
	var keep []metav1.OwnerReference
	for _, o := range u.GetOwnerReferences() {
		if o.Controller != nil && *o.Controller {
			keep = append(keep, o)
		}
	}
	u.SetOwnerReferences(keep)
	return simapi.Digest(c)
}

func (r *run) observeC02() {
	for k, d := range r.guard {
		if revisionKind(k.Kind) {
			continue // judged on the manager's writes only
		}
		m := r.w.Store.Peek(k)
		if m == nil {
			r.w.S.Violate("C02/foreign-object-deleted/"+k.Kind, fmt.Sprintf("%s %s, controlled by another owner, was deleted", k.Kind, k.Name))
		} else if simapi.Digest(m) != d {
			r.w.S.Violate("C02/foreign-object-modified/"+k.Kind, fmt.Sprintf("%s %s, controlled by another owner, was modified", k.Kind, k.Name))
		}
	}
}

// ---------------------------------------------------------------- C16

// setupC16 places pre-existing cluster objects and an API-server rejection.
func (r *run) setupC16(t *sim.Tape) {
	ctx := context.Background()
	w := r.w
	// objects the packages will want, pre-existing: uncontrolled or controlled by a stranger
	for _, n := range objPool {
		switch t.Next(5) {
		case 0: // uncontrolled CRD
			o := Obj{Kind: "CRD", Name: n}
			u := mustObj(o)
			_ = w.Direct.Create(ctx, u)
		case 1: // controlled by a foreign owner
			o := Obj{Kind: "CRD", Name: n}
			u := mustObj(o)
			u.SetOwnerReferences(ownerRefs("v1", "ConfigMap", "stranger", "stranger-uid", true))
			if w.Direct.Create(ctx, u) == nil {
				_, name := o.ObjectID()
				r.foreign["CustomResourceDefinition/"+name] = true
				// keep the stranger alive so the garbage collector leaves the object alone
				cm := &unstructured.Unstructured{Object: map[string]any{"apiVersion": "v1", "kind": "ConfigMap", "metadata": map[string]any{"name": "stranger", "namespace": "default"}}}
				_ = w.Direct.Create(ctx, cm)
			}
		}
	}
	if t.Next(2) == 0 {
		_, r.rejectName = Obj{Kind: "CRD", Name: objPool[t.Next(len(objPool))]}.ObjectID()
		r.rejectOn = t.Next(2) == 0
		w.Store.Admission = append(w.Store.Admission, func(req *simapi.AdmissionRequest) error {
			if r.rejectOn && req.Key.Name == r.rejectName && req.Caller.Actor == "pkg" && (req.Operation == "CREATE" || req.Operation == "UPDATE") {
				return kerrors.NewInvalid(schema.GroupKind{Group: req.Key.Group, Kind: req.Key.Kind}, req.Key.Name, field.ErrorList{field.Invalid(field.NewPath("spec"), nil, "rejected by the API server")})
			}
			return nil
		})
	}
}

// activateOne: with manual activation the user makes one revision of the
// package active (and the others inactive).
func (r *run) activateOne(p *Pkg, t *sim.Tape) {
	w := r.w
	ctx := context.Background()
	var revs []simapi.ObjKey
	for _, k := range w.Store.KeysOf(RevGK[p.Kind]) {
		if (&unstructured.Unstructured{Object: w.Store.Peek(k)}).GetLabels()[pkgv1.LabelParentPackage] == p.Name {
			revs = append(revs, k)
		}
	}
	if len(revs) == 0 {
		return
	}
	pick := revs[t.Next(len(revs))]
	for _, k := range revs {
		u := &unstructured.Unstructured{Object: runtime.DeepCopyJSON(w.Store.Peek(k))}
		want := "Inactive"
		if k == pick {
			want = "Active"
		}
		if s, _, _ := unstructured.NestedString(u.Object, "spec", "desiredState"); s != want {
			_ = unstructured.SetNestedField(u.Object, want, "spec", "desiredState")
			_ = w.Direct.Update(ctx, u)
		}
	}
	w.S.Probe("revision-activated-by-user")
}

// toggleReject: the API server starts or stops rejecting writes of one object
// (an admission webhook being installed or removed).
func (r *run) toggleReject() {
	r.rejectOn = !r.rejectOn
	r.rejectSeq = r.w.Store.Seq()
	r.w.S.Probe(fmt.Sprintf("rejection-toggled/%v", r.rejectOn))
}

// deleteObjectOutOfBand: somebody deletes a package CRD behind the package manager's back.
func (r *run) deleteObjectOutOfBand(t *sim.Tape) {
	n := objPool[t.Next(len(objPool))]
	u := mustObj(Obj{Kind: "CRD", Name: n})
	if m := r.obj("CustomResourceDefinition", u.GetName()); m != nil {
		if uid, _, _ := controllerOf(m); uid == "stranger-uid" {
			return
		}
	}
	if r.w.Direct.Delete(context.Background(), u) == nil {
		r.w.S.Probe("package-object-deleted-out-of-band")
	}
}

func ownerRefs(av, kind, name, uid string, controller bool) []metav1OwnerReference {
	return []metav1OwnerReference{{APIVersion: av, Kind: kind, Name: name, UID: types.UID(uid), Controller: ptr.To(controller)}}
}

func (r *run) createInstance() {
	w := r.w
	for _, n := range objPool {
		_, crdName := Obj{Kind: "CRD", Name: n}.ObjectID()
		if !r.exists("CustomResourceDefinition", crdName) {
			continue
		}
		k := strings.ToUpper(n[:1]) + n[1:]
		u := &unstructured.Unstructured{Object: map[string]any{"apiVersion": "pk.example.org/v1", "kind": k, "metadata": map[string]any{"name": fmt.Sprintf("inst-%d", r.instances)}, "spec": map[string]any{"data": "user"}}}
		if w.Direct.Create(context.Background(), u) == nil {
			r.instances++
			w.S.Probe("user-data-instance-created")
			return
		}
	}
}

func controllerOf(m map[string]any) (uid types.UID, kind, name string) {
	for _, o := range (&unstructured.Unstructured{Object: m}).GetOwnerReferences() {
		if o.Controller != nil && *o.Controller {
			return o.UID, o.Kind, o.Name
		}
	}
	return "", "", ""
}

// observeC16: whoever controls a package object is a revision whose desired
// state is (or was, when it took control) Active - checked loosely here:
// an Inactive revision that finished a reconcile must not be a controller
// (judged in judgeC16); here we only watch package objects vanishing.
func (r *run) observeC16() {}

// judgeGC: while a package exists the garbage collector must never collect its
// CRDs or their instances.
func (r *run) judgeGC(e *simapi.LogEntry) {
	if !e.Removed && !(e.Verb == "delete" && e.Err == nil) {
		return
	}
	if e.Key.Kind != "CustomResourceDefinition" && e.Key.Group != "pk.example.org" {
		return
	}
	if e.Before == nil {
		return
	}
	// which package does it belong to? (a non-controller owner reference to the package)
	for _, o := range (&unstructured.Unstructured{Object: e.Before}).GetOwnerReferences() {
		for _, p := range r.pkgs {
			if o.Name == p.Name && o.Kind == p.Kind {
				if r.w.Store.Peek(simapi.ObjKey{Group: PkgGK[p.Kind].Group, Kind: p.Kind, Name: p.Name}) != nil {
					r.w.S.Violate("C16/package-object-garbage-collected", fmt.Sprintf("the garbage collector deleted %s %s while package %s still exists", e.Key.Kind, e.Key.Name, p.Name))
				}
			}
		}
	}
	if e.Key.Group == "pk.example.org" {
		r.w.S.Violate("C16/user-data-garbage-collected", fmt.Sprintf("the garbage collector deleted instance %s %s", e.Key.Kind, e.Key.Name))
	}
}

func (r *run) judgeC16(revName, kind string, rev map[string]any, sp Spec, p *Pkg, t *sim.Task, mine []*simapi.LogEntry, healthyNow bool) {
	w := r.w
	revUID := (&unstructured.Unstructured{Object: rev}).GetUID()
	// (1) all-or-nothing: an object controlled by someone else, or rejected by
	// the API server, throughout the reconcile => no package object written
	blocked := ""
	for _, k := range sp.ObjectKeys() {
		parts := strings.SplitN(k, "/", 2)
		// (an inactive revision only adds itself as a plain owner: another
		// owner's control does not stand in its way)
		if r.foreign[k] && r.desiredStateRead(t.ID, revName) == "Active" {
			if m := r.obj(parts[0], parts[1]); m != nil {
				if uid, _, _ := controllerOf(m); uid == "stranger-uid" {
					blocked = k + " is controlled by another owner"
				}
			}
		}
		if parts[1] == r.rejectName && r.rejectName != "" && r.rejectOn && len(mine) > 0 && r.rejectSeq <= mine[0].Seq {
			// an inactive revision writes only objects that exist (it never creates):
			// a rejection of an absent object is never put to the test
			// (as this reconcile itself found it: its own read of the object)
			existedForTask := w.Store.StateAt(mine[0].Seq, simapi.ObjKey{Group: kindGroup[parts[0]], Kind: parts[0], Name: parts[1]}) != nil
			for _, e := range mine {
				if e.Read && e.Verb == "get" && e.Key.Kind == parts[0] && e.Key.Name == parts[1] && e.Injected == "" {
					existedForTask = e.After != nil
				}
			}
			if r.desiredStateRead(t.ID, revName) == "Active" || existedForTask {
				blocked = k + " is rejected by the API server"
			}
		}
	}
	state := r.desiredStateRead(t.ID, revName)
	// an inactive revision that already recorded its objects does not establish:
	// it releases control object by object (retried until done), which is not
	// what the all-or-nothing clause is about
	establishes := state == "Active" || (state == "Inactive" && r.objectRefsRead(t.ID, revName) == 0)
	if blocked != "" && establishes {
		for _, e := range mine {
			if e.Read || e.DryRun || e.Injected != "" || !pkgObjectKind(e.Key.Kind) || e.Err != nil {
				continue
			}
			if e.Changed {
				w.S.Violate("C16/partial-establish", fmt.Sprintf("revision %s wrote %s %s although %s", revName, e.Key.Kind, e.Key.Name, blocked))
			}
		}
		w.S.Probe("blocked-establish-reconcile")
	}
	if !t.Normal || !healthyNow {
		return
	}
	// (2) after a successful reconcile: ownership matches the revision's role
	for _, k := range sp.ObjectKeys() {
		parts := strings.SplitN(k, "/", 2)
		// the object as this reconcile left it (its last write of it, or what it
		// last read): somebody may have deleted it and another revision created
		// it again since
		var m map[string]any
		for i := len(mine) - 1; i >= 0; i-- {
			e := mine[i]
			if e.Key.Kind == parts[0] && e.Key.Name == parts[1] && e.Err == nil && e.Injected == "" && !e.DryRun && e.After != nil {
				m = e.After
				break
			}
		}
		if m == nil {
			continue
		}
		if cur := r.obj(parts[0], parts[1]); cur == nil || (&unstructured.Unstructured{Object: cur}).GetUID() != (&unstructured.Unstructured{Object: m}).GetUID() {
			w.S.Probe("package-object-replaced-since-reconcile")
			continue
		}
		var isOwner, isController, pkgOwner, pkgController bool
		for _, o := range (&unstructured.Unstructured{Object: m}).GetOwnerReferences() {
			if o.UID == revUID {
				isOwner = true
				isController = o.Controller != nil && *o.Controller
			}
			if o.Kind == p.Kind && o.Name == p.Name {
				pkgOwner = true
				pkgController = o.Controller != nil && *o.Controller
			}
		}
		switch state {
		case "Active":
			if !isController {
				w.S.Violate("C16/active-revision-not-controller", fmt.Sprintf("active revision %s is healthy but does not control %s", revName, k))
			}
		case "Inactive":
			if isController {
				w.S.Violate("C16/inactive-revision-still-controller", fmt.Sprintf("inactive revision %s finished a reconcile but still controls %s", revName, k))
			}
			// deactivation keeps ownership: an object this revision owned when the
			// reconcile started is still owned by it afterwards
			if !isOwner && len(mine) > 0 {
				if before := w.Store.StateAt(mine[0].Seq, simapi.ObjKey{Group: kindGroup[parts[0]], Kind: parts[0], Name: parts[1]}); before != nil && (&unstructured.Unstructured{Object: before}).GetUID() == (&unstructured.Unstructured{Object: m}).GetUID() {
					for _, o := range (&unstructured.Unstructured{Object: before}).GetOwnerReferences() {
						if o.UID == revUID {
							w.S.Violate("C16/inactive-revision-lost-ownership", fmt.Sprintf("inactive revision %s no longer owns %s", revName, k))
						}
					}
				}
			}
		}
		// (an inactive revision that establishes - it had recorded no objects yet -
		// and became an owner of the object in this reconcile counts as well)
		inactiveEstablished := false
		if state == "Inactive" && isOwner && r.objectRefsRead(t.ID, revName) == 0 {
			for _, e := range mine {
				if e.Key.Kind == parts[0] && e.Key.Name == parts[1] && e.Changed && !e.DryRun && e.Err == nil {
					inactiveEstablished = true
				}
			}
		}
		if (state == "Active" || inactiveEstablished) && (!pkgOwner || pkgController) {
			w.S.Violate("C16/package-not-plain-owner", fmt.Sprintf("%s established by %s does not list package %s as a non-controlling owner", k, revName, p.Name))
		}
	}
	w.S.Probe("ownership-checked/" + state)
}

// final (fault-free, quiescent): whatever happened to the cache on the way -
// failed, partial or torn writes, truncated or corrupt entries - the current
// revision of every valid package has installed exactly what its image declares.
func (r *run) final() {
	if !r.mode.C15 {
		return
	}
	w := r.w
	w.S.Probe("c15-final")
	// packages that compete for the same object names legitimately block each other
	claimed := map[string]int{}
	for _, p := range r.pkgs {
		seen := map[string]bool{}
		for _, tag := range p.Tags {
			for _, k := range w.Published[p.Repo+":"+tag].ObjectKeys() {
				if !seen[k] {
					seen[k] = true
					claimed[k]++
				}
			}
		}
	}
	for _, p := range r.pkgs {
		pm := w.Store.Peek(simapi.ObjKey{Group: PkgGK[p.Kind].Group, Kind: p.Kind, Name: p.Name})
		if pm == nil {
			continue
		}
		cur, _, _ := unstructured.NestedString(pm, "status", "currentRevision")
		src, _, _ := unstructured.NestedString(pm, "spec", "package")
		rev := w.Store.Peek(simapi.ObjKey{Group: RevGK[p.Kind].Group, Kind: RevGK[p.Kind].Kind, Name: cur})
		if rev == nil {
			continue
		}
		img, _, _ := unstructured.NestedString(rev, "spec", "image")
		if img != src {
			continue
		}
		sp, ok := w.Published[strings.TrimPrefix(img, Registry+"/")]
		if !ok {
			continue
		}
		if v, _ := Valid(p.Kind, sp, p.Ignore); !v {
			continue
		}
		if st, _, _ := unstructured.NestedString(rev, "spec", "desiredState"); st != "Active" {
			continue
		}
		if w.Opts.Verify && condStatus(rev, "Verified") != "True" {
			w.S.Probe("c15-final/skipped-unverified")
			continue
		}
		shared := false
		for _, k := range sp.ObjectKeys() {
			shared = shared || claimed[k] > 1
		}
		if shared {
			w.S.Probe("c15-final/skipped-shared-objects")
			continue
		}
		want := sp.ObjectKeys()
		got := objectRefs(rev)
		if condStatus(rev, "Healthy") != "True" || strings.Join(got, ",") != strings.Join(want, ",") {
			msg := ""
			cl, _, _ := unstructured.NestedSlice(rev, "status", "conditions")
			for _, c := range cl {
				if m, _ := c.(map[string]any); m != nil && m["type"] == "Healthy" {
					msg = fmt.Sprint(m["message"])
				}
			}
			sig := "C15/valid-package-not-installed-after-faults-stopped"
			// is a revision of this package stuck on a cache entry that was damaged
			// on disk (this one, or an older one that therefore cannot hand over its objects)?
			for _, k := range w.Store.KeysOf(RevGK[p.Kind]) {
				rv := w.Store.Peek(k)
				if (&unstructured.Unstructured{Object: rv}).GetLabels()[pkgv1.LabelParentPackage] != p.Name || !r.damaged[k.Name] {
					continue
				}
				cl, _, _ := unstructured.NestedSlice(rv, "status", "conditions")
				for _, c := range cl {
					if m, _ := c.(map[string]any); m != nil && m["type"] == "Healthy" && strings.Contains(fmt.Sprint(m["message"]), "cannot parse package contents") {
						sig = "C15/valid-package-not-installed-after-faults-stopped/unparsable-cache-entry-damaged-on-disk"
					}
				}
			}
			w.S.Violate(sig, fmt.Sprintf("revision %s of the valid package %s is not healthy with the objects its image declares once faults have stopped and the system is quiet: healthy=%s objects=%v want %v (%s)", cur, img, condStatus(rev, "Healthy"), got, want, msg))
			return
		}
		w.S.Probe("c15-final/installed-as-declared")
	}
}

type metav1OwnerReference = metav1.OwnerReference

func mustObj(o Obj) *unstructured.Unstructured {
	u := &unstructured.Unstructured{}
	if err := sigyaml.Unmarshal([]byte(o.yaml()), &u.Object); err != nil {
		panic(err)
	}
	return u
}
