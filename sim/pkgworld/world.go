package pkgworld

import (
	"context"
	"crypto/sha256"
	"fmt"
	"strings"

	semver "github.com/Masterminds/semver"
	"github.com/spf13/afero"
	metav1 "k8s.io/apimachinery/pkg/apis/meta/v1"
	"k8s.io/apimachinery/pkg/apis/meta/v1/unstructured"
	"k8s.io/apimachinery/pkg/runtime/schema"
	"k8s.io/apimachinery/pkg/types"
	"sigs.k8s.io/controller-runtime/pkg/client"
	"sigs.k8s.io/controller-runtime/pkg/reconcile"

	"github.com/crossplane/crossplane-runtime/pkg/feature"
	"github.com/crossplane/crossplane-runtime/pkg/parser"

	pkgv1 "github.com/crossplane/crossplane/apis/pkg/v1"
	"github.com/crossplane/crossplane/apis/pkg/v1beta1"
	"github.com/crossplane/crossplane/internal/controller/pkg/manager"
	"github.com/crossplane/crossplane/internal/controller/pkg/resolver"
	"github.com/crossplane/crossplane/internal/controller/pkg/revision"
	"github.com/crossplane/crossplane/internal/dag"
	"github.com/crossplane/crossplane/internal/features"
	"github.com/crossplane/crossplane/internal/xpkg"

	"github.com/crossplane/crossplane/verifsim/kit"
	"github.com/crossplane/crossplane/verifsim/runner"
	"github.com/crossplane/crossplane/verifsim/sim"
	"github.com/crossplane/crossplane/verifsim/simapi"
	"github.com/crossplane/crossplane/verifsim/simfs"
	"github.com/crossplane/crossplane/verifsim/simreg"
)

// RunningVersion is the Crossplane version linked into the harness (-ldflags -X).
const RunningVersion = "v1.19.0"

// Registry host of the world.
const Registry = "xpkg.example.org"

// Kinds of packages.
var (
	PkgKinds = []string{"Provider", "Configuration", "Function"}
	PkgGK    = map[string]schema.GroupKind{
		"Provider":      {Group: "pkg.crossplane.io", Kind: "Provider"},
		"Configuration": {Group: "pkg.crossplane.io", Kind: "Configuration"},
		"Function":      {Group: "pkg.crossplane.io", Kind: "Function"},
	}
	RevGK = map[string]schema.GroupKind{
		"Provider":      {Group: "pkg.crossplane.io", Kind: "ProviderRevision"},
		"Configuration": {Group: "pkg.crossplane.io", Kind: "ConfigurationRevision"},
		"Function":      {Group: "pkg.crossplane.io", Kind: "FunctionRevision"},
	}
	LockGVK = schema.GroupVersionKind{Group: "pkg.crossplane.io", Version: "v1beta1", Kind: "Lock"}
)

// Opts configures the world.
type Opts struct {
	Resolver        bool
	Upgrades        bool // EnableAlphaDependencyVersionUpgrades
	Downgrades      bool
	MaxEstablishers int
	DiskFaults      bool
	Verify          bool // EnableAlphaSignatureVerification (the signature controller is the environment)
}

// W is the package world.
type W struct {
	kit.World
	Opts   Opts
	Direct *simapi.Client
	Proc   *sim.Proc
	Reg    *simreg.Registry
	Disk   *simfs.Fs
	MemFs  afero.Fs
	// Published maps "repo:tag" to the spec of the image.
	Published map[string]Spec
	OnDone    func(ctrl string, key types.NamespacedName, t *sim.Task, startSeq int, res reconcile.Result, err error)
	starts    map[string]int
}

// New builds the world inside the bubble.
func New(s *sim.Sim, res *runner.Result, o Opts) (*W, error) {
	w := &W{Opts: o, Published: map[string]Spec{}, starts: map[string]int{}}
	w.S, w.Res = s, res
	w.Store = simapi.NewStore(kit.Scheme())
	if err := kit.ServeCore(w.Store); err != nil {
		return nil, err
	}
	kit.HookLog(s, w.Store)
	kit.SeedNames(s)
	w.Direct = simapi.NewClient(w.Store, nil, nil, "user")
	w.Proc = s.NewProc("pkg")
	w.Reg = simreg.New(s, w.Proc)
	w.MemFs = afero.NewMemMapFs()
	_ = w.MemFs.MkdirAll("/cache", 0o755)
	w.Disk = simfs.New(w.MemFs)
	w.ExtraState = func() string {
		fis, _ := afero.ReadDir(w.MemFs, "/cache")
		h := sha256.New()
		for _, fi := range fis {
			b, _ := afero.ReadFile(w.MemFs, "/cache/"+fi.Name())
			fmt.Fprintf(h, "%s:%d:%x;", fi.Name(), len(b), sha256.Sum256(b))
		}
		return fmt.Sprintf("%x", h.Sum(nil))
	}
	w.Disk.Crash = func() { s.Crash(w.Proc, nil) }
	w.Disk.Dead = func() bool { return w.Proc.Dead }
	if err := w.Direct.Create(context.Background(), &v1beta1.Lock{ObjectMeta: metav1.ObjectMeta{Name: "lock"}}); err != nil {
		return nil, err
	}
	w.NewProcess()
	return w, nil
}

// Publish makes an image available under repo:tag (and by digest).
func (w *W) Publish(repo, tag string, spec Spec) error {
	img, err := Image(spec)
	if err != nil {
		return err
	}
	d, err := img.Digest()
	if err != nil {
		return err
	}
	w.Reg.TagMap[Registry+"/"+repo+":"+tag] = d.Hex
	w.Reg.Images[d.Hex] = img
	w.Published[repo+":"+tag] = spec
	return nil
}

type revKind struct {
	kind    string
	newPkg  func() pkgv1.Package
	newRev  func() pkgv1.PackageRevision
	newList func() pkgv1.PackageRevisionList
	linter  parser.Linter
	gvk     schema.GroupVersionKind
}

func kinds() []revKind {
	return []revKind{
		{"Provider", func() pkgv1.Package { return &pkgv1.Provider{} }, func() pkgv1.PackageRevision { return &pkgv1.ProviderRevision{} }, func() pkgv1.PackageRevisionList { return &pkgv1.ProviderRevisionList{} }, xpkg.NewProviderLinter(), pkgv1.ProviderGroupVersionKind},
		{"Configuration", func() pkgv1.Package { return &pkgv1.Configuration{} }, func() pkgv1.PackageRevision { return &pkgv1.ConfigurationRevision{} }, func() pkgv1.PackageRevisionList { return &pkgv1.ConfigurationRevisionList{} }, xpkg.NewConfigurationLinter(), pkgv1.ConfigurationGroupVersionKind},
		{"Function", func() pkgv1.Package { return &pkgv1.Function{} }, func() pkgv1.PackageRevision { return &pkgv1.FunctionRevision{} }, func() pkgv1.PackageRevisionList { return &pkgv1.FunctionRevisionList{} }, xpkg.NewFunctionLinter(), pkgv1.FunctionGroupVersionKind},
	}
}

// NewProcess builds fresh controllers (start or restart). The disk survives.
func (w *W) NewProcess() {
	s := w.S
	w.Ctrls = nil
	c := simapi.NewClient(w.Store, s, w.Proc, "pkg")
	mgr := kit.Mgr{C: c, S: w.Store.Scheme}
	cache := xpkg.NewFsPackageCache("/cache", w.Disk)
	metaScheme, _ := xpkg.BuildMetaScheme()
	objScheme, _ := xpkg.BuildObjectScheme()
	flags := &feature.Flags{}
	if w.Opts.Verify {
		flags.Enable(features.EnableAlphaSignatureVerification)
	}
	if w.Opts.Upgrades {
		flags.Enable(features.EnableAlphaDependencyVersionUpgrades)
	}
	maxE := w.Opts.MaxEstablishers
	if maxE == 0 {
		maxE = 2
	}
	add := func(name string, weight int, gk schema.GroupKind, rec func(context.Context, reconcile.Request) (reconcile.Result, error)) {
		ctrl := &kit.Controller{Name: name, Proc: w.Proc, Reconcile: rec, Keys: kit.KeysOfKind(w.Store, gk), Weight: weight}
		ctrl.OnStart = func(k types.NamespacedName, t *sim.Task) {
			w.starts[name+"/"+k.Name] = w.Store.Seq()
			if strings.HasPrefix(name, "revision/") && w.Opts.DiskFaults && s.Phase == "chaos" {
				// disk fault plan for this reconcile, drawn by the scheduler
				if s.Tape.Next(5) == 0 {
					w.Disk.SetPlan(s.Tape.Next(12), []string{"err", "short", "enospc", "crash"}[s.Tape.Next(4)])
				} else {
					s.Tape.Raw()
					s.Tape.Raw()
					w.Disk.SetPlan(-1, "")
				}
			} else {
				w.Disk.SetPlan(-1, "")
			}
		}
		ctrl.OnDone = func(k types.NamespacedName, t *sim.Task, r reconcile.Result, err error) {
			if w.OnDone != nil {
				w.OnDone(name, k, t, w.starts[name+"/"+k.Name], r, err)
			}
		}
		w.Ctrls = append(w.Ctrls, ctrl)
	}
	for _, k := range kinds() {
		k := k
		m := manager.NewReconciler(mgr,
			manager.WithNewPackageFn(k.newPkg), manager.WithNewPackageRevisionFn(k.newRev), manager.WithNewPackageRevisionListFn(k.newList),
			manager.WithRevisioner(manager.NewPackageRevisioner(w.Reg, manager.WithDefaultRegistry(Registry))),
			manager.WithConfigStore(xpkg.NewImageConfigStore(c, "crossplane-system")))
		add("package/"+k.kind, 12, PkgGK[k.kind], m.Reconcile)
		var dm revision.DependencyManager = revision.NewPackageDependencyManager(c, dag.NewMapDag, k.gvk)
		if w.Opts.Upgrades {
			dm = revision.NewPackageDependencyManager(c, dag.NewUpgradingMapDag, k.gvk)
		}
		r := revision.NewReconciler(mgr,
			revision.WithCache(cache),
			revision.WithDependencyManager(dm),
			revision.WithEstablisher(revision.NewAPIEstablisher(c, "crossplane-system", maxE)),
			revision.WithNewPackageRevisionFn(k.newRev),
			revision.WithParser(parser.New(metaScheme, objScheme)),
			revision.WithParserBackend(revision.NewImageBackend(w.Reg, revision.WithDefaultRegistry(Registry))),
			revision.WithConfigStore(xpkg.NewImageConfigStore(c, "crossplane-system")),
			revision.WithLinter(k.linter),
			revision.WithNamespace("crossplane-system"),
			revision.WithFeatureFlags(flags),
		)
		add("revision/"+k.kind, 25, RevGK[k.kind], r.Reconcile)
	}
	if w.Opts.Resolver {
		ro := []resolver.ReconcilerOption{resolver.WithFetcher(w.Reg), resolver.WithDefaultRegistry(Registry), resolver.WithFeatures(flags),
			resolver.WithConfigStore(xpkg.NewImageConfigStore(c, "crossplane-system"))}
		if w.Opts.Upgrades {
			ro = append(ro, resolver.WithNewDagFn(dag.NewUpgradingMapDag))
		}
		if w.Opts.Downgrades {
			ro = append(ro, resolver.WithDowngradesEnabled())
		}
		rr := resolver.NewReconciler(mgr, ro...)
		add("resolver", 15, LockGVK.GroupKind(), rr.Reconcile)
	}
}

// Restart restarts the crashed process.
func (w *W) Restart() {
	w.S.Restart(w.Proc)
	w.NewProcess()
}

// InstallPackage creates the package object.
func (w *W) InstallPackage(kind, name, repo, tag string, mutate func(pkgv1.Package)) error {
	var p pkgv1.Package
	switch kind {
	case "Provider":
		p = &pkgv1.Provider{ObjectMeta: metav1.ObjectMeta{Name: name}}
	case "Configuration":
		p = &pkgv1.Configuration{ObjectMeta: metav1.ObjectMeta{Name: name}}
	default:
		p = &pkgv1.Function{ObjectMeta: metav1.ObjectMeta{Name: name}}
	}
	p.SetSource(Registry + "/" + repo + ":" + tag)
	if mutate != nil {
		mutate(p)
	}
	if kind != "Configuration" {
		// what the runtime hooks' Pre step provides in a real deployment: the
		// package's webhook TLS server secret
		sec := &unstructured.Unstructured{Object: map[string]any{"apiVersion": "v1", "kind": "Secret",
			"metadata": map[string]any{"name": name + "-tls-server", "namespace": "crossplane-system"},
			"data":     map[string]any{"tls.crt": "Y2VydA==", "tls.key": "a2V5"}}}
		_ = w.Direct.Create(context.Background(), sec)
	}
	return w.Direct.Create(context.Background(), p.(client.Object))
}

// Valid applies the packaging rules of contributing/specifications/xpkg.md
// (written independently of internal/xpkg's linters) to a spec installed as a
// package of the given type.
func Valid(pkgType string, s Spec, ignoreConstraints bool) (bool, string) {
	if s.Form == "multi" {
		return false, "several annotated layers"
	}
	if len(s.MetaKinds) != 1 {
		return false, fmt.Sprintf("%d metadata objects", len(s.MetaKinds))
	}
	if s.MetaKinds[0] != pkgType {
		return false, "metadata of kind " + s.MetaKinds[0]
	}
	allowed := map[string]map[string]bool{
		"Provider":      {"CRD": true, "ValidatingWebhookConfiguration": true, "MutatingWebhookConfiguration": true},
		"Configuration": {"XRD": true, "Composition": true},
		"Function":      {"CRD": true},
	}[pkgType]
	for _, o := range s.Objects {
		if !allowed[o.Kind] {
			return false, "object kind " + o.Kind + " not allowed in a " + pkgType + " package"
		}
	}
	if s.Crossplane != "" && !ignoreConstraints {
		c, err := semver.NewConstraint(s.Crossplane)
		if err != nil {
			return false, "invalid crossplane constraint"
		}
		v, _ := semver.NewVersion(RunningVersion)
		if !c.Check(v) {
			return false, "crossplane constraint " + s.Crossplane + " not met by " + RunningVersion
		}
	}
	return true, ""
}
