package pkgworld

import (
	"github.com/crossplane/crossplane/verifsim/kit"
	"github.com/crossplane/crossplane/verifsim/runner"
)

// Describe returns the evidence description of the W-pkg checks.
func Describe(id string) runner.Description {
	d := runner.Description{
		World: "W-pkg: real package manager + revision reconcilers for Provider, Configuration and Function packages on the simulated API server, registry and disk",
		Real: []string{"manager.Reconciler + PackageRevisioner", "revision.Reconciler with ImageBackend, crossplane-runtime parser, xpkg linters, APIEstablisher (errgroup workers), PackageDependencyManager, xpkg.FsPackageCache (gzip tee through io.Pipe)",
			"xpkg.Builder + AnnotateLayers (valid annotated images are built by the repo's own builder)", "xpkg.PackageCrossplaneCompatible with internal/version set to v1.19.0 at link time", "cluster/crds/*.yaml"},
		Stub:        []string{"Kubernetes API server and garbage collector (simapi)", "OCI registry (simreg; images served from raw manifest/config bytes)", "disk (simfs over an in-memory afero filesystem: faulted create/open/read/write/close/remove, short write, ENOSPC, crash with torn write; corrupt/truncate as environment actions)", "package runtime hooks (none: no Deployments)", "signature verification (feature off)"},
		Assumptions: kit.APIAssumptions,
		FaultKinds:  []string{"err-before", "err-after", "conflict", "crash-before", "crash-after", "registry errors", "disk-err", "disk-short", "disk-enospc", "disk-crash", "disk-truncated-entry", "disk-corrupt-byte"},
	}
	switch id {
	case "C15":
		d.Rule = "one case = one seeded run (1-2 packages of drawn type x 2 versions; streams with 0-3 objects, wrong/missing/duplicate metadata, forbidden kinds, Crossplane constraints with/without ignore flag, annotated/plain/multi-annotated images; version switches; cache damaged, disk faults and crashes during the cache tee; API faults and crashes); non-trivial = at least one fault fired or two tasks interleaved; distinct = distinct trace hash"
	case "C16":
		d.Rule = "one case = one seeded run (packages sharing object names; cluster objects pre-existing uncontrolled or controlled by a stranger; an API-server rejection for one object; upgrade and rollback between two versions with active/inactive revisions reconciled in any order; garbage collector interleaved; user-data instances of package CRDs; API faults and crashes); non-trivial = at least one fault fired or two tasks interleaved; distinct = distinct trace hash"
	case "C17":
		d.World = "W-pkg with the real dependency resolver: resolver.Reconciler, manager and revision reconcilers (with PackageDependencyManager and both DAG implementations) on the simulated API server and registry"
		d.Rule = "one case = one seeded run (2-4 dependency repositories with unsorted, partly non-semver tag lists and per-version dependencies, 1-2 root Configurations; random dependency graphs incl. diamonds, self loops and cycles; constraint strings: ranges, exact, digests, invalid, unsatisfiable; upgrade and downgrade options drawn; tags published during the run; API and registry faults, crashes); non-trivial = at least one fault fired or two tasks interleaved; distinct = distinct trace hash"
	}
	return d
}
