package pkgworld

import (
	"context"
	"fmt"
	"os"
	"sort"
	"strings"
	"time"

	semver "github.com/Masterminds/semver"
	"github.com/google/go-containerregistry/pkg/name"
	"k8s.io/apimachinery/pkg/apis/meta/v1/unstructured"
	"k8s.io/apimachinery/pkg/types"
	"sigs.k8s.io/controller-runtime/pkg/reconcile"

	pkgv1 "github.com/crossplane/crossplane/apis/pkg/v1"

	"github.com/crossplane/crossplane/verifsim/kit"
	"github.com/crossplane/crossplane/verifsim/runner"
	"github.com/crossplane/crossplane/verifsim/sim"
	"github.com/crossplane/crossplane/verifsim/simapi"
)

// depRepo describes a dependency repository of the C17 workload.
type depRepo struct {
	kind string // Provider | Configuration | Function
	repo string // acme/depN
	tags []string
}

var tagPool = []string{"v1.0.0", "v1.2.0", "v1.10.0", "v2.0.0", "v2.1.0-rc.1", "v0.9.0", "latest", "main", "v1.5.0-rc.1", "v1.1.0"}

var constraintPool = []string{">=v1.0.0", "v1.2.0", "<v2.0.0", ">=v1.0.0, <v2.0.0", ">=v9.0.0", "~1.2", "not-a-constraint", ">=v0.9.0", "<=v1.10.0", ">=v1.0.0, !=v1.2.0", "<v1.1.0 || >=v1.10.0"}

var boundPool = []string{">=v1.0.0", "<v2.0.0", ">=v1.0.0, <v2.0.0", ">=v0.9.0", "<=v1.10.0", ">=v1.2.0", "<v1.10.0", ">=v1.10.0", "<=v1.2.0"}

type c17 struct {
	w      *W
	repos  []*depRepo
	roots  []string
	taskOf map[int]bool // resolver tasks
}

func depField(kind string) string { return strings.ToLower(kind) }

// RunC17 is the W-pkg run for property C17.
func RunC17(s *sim.Sim, res *runner.Result) {
	t := s.Tape
	o := Opts{Resolver: true, Upgrades: t.Next(3) == 0, MaxEstablishers: 2}
	o.Downgrades = o.Upgrades && t.Next(2) == 0
	w, err := New(s, res, o)
	if err != nil {
		res.Trouble = err.Error()
		return
	}
	c := &c17{w: w, taskOf: map[int]bool{}}
	nRepos := 2 + t.Next(3)
	for i := 0; i < nRepos; i++ {
		c.repos = append(c.repos, &depRepo{kind: PkgKinds[t.Next(3)], repo: fmt.Sprintf("acme/dep%d", i)})
	}
	// with upgrades on, half the runs make the last repository a dependency most
	// packages share, under bounding constraints: several parents, one package
	shared := o.Upgrades && t.Next(2) == 0
	drawDeps := func(self int, allowCycles bool) []Dep {
		var out []Dep
		for j, r := range c.repos {
			sh := shared && j == len(c.repos)-1
			if sh {
				if t.Next(4) == 0 {
					continue
				}
			} else if t.Next(3) != 0 {
				continue
			}
			if j <= self && !allowCycles {
				continue
			}
			con := constraintPool[t.Next(len(constraintPool))]
			if sh {
				con = boundPool[t.Next(len(boundPool))]
			}
			out = append(out, Dep{Kind: depField(r.kind), Repo: Registry + "/" + r.repo, Constraint: con})
		}
		return out
	}
	cyclic := t.Next(4) == 0
	// publish the dependency repositories: several tags, each with its own dependencies
	for i, r := range c.repos {
		n := 1 + t.Next(4)
		if shared && i == len(c.repos)-1 {
			n += 2
		}
		for k := 0; k < n; k++ {
			tag := tagPool[t.Next(len(tagPool))]
			dup := false
			for _, x := range r.tags {
				dup = dup || x == tag
			}
			if dup {
				continue
			}
			spec := Spec{MetaKinds: []string{r.kind}, MetaName: fmt.Sprintf("dep%d", i), Form: "annotated", Deps: drawDeps(i, cyclic)}
			if err := w.Publish(r.repo, tag, spec); err != nil {
				res.Trouble = err.Error()
				return
			}
			r.tags = append(r.tags, tag)
		}
	}
	// root packages
	nRoots := 1 + t.Next(2)
	for i := 0; i < nRoots; i++ {
		spec := Spec{MetaKinds: []string{"Configuration"}, MetaName: fmt.Sprintf("root%d", i), Form: "annotated", Deps: drawDeps(-1, true)}
		// a digest-pinned dependency now and then
		if len(spec.Deps) > 0 && t.Next(4) == 0 {
			d := &spec.Deps[0]
			repo := strings.TrimPrefix(d.Repo, Registry+"/")
			for _, r := range c.repos {
				if r.repo == repo && len(r.tags) > 0 {
					d.Constraint = "sha256:" + w.Reg.TagMap[Registry+"/"+r.repo+":"+r.tags[0]]
				}
			}
		}
		if err := w.Publish(fmt.Sprintf("acme/root%d", i), "v1.0.0", spec); err != nil {
			res.Trouble = err.Error()
			return
		}
		// a second version of the root with dependencies of its own: moving the
		// package to it deactivates (and later deletes) the first revision
		spec2 := Spec{MetaKinds: []string{"Configuration"}, MetaName: fmt.Sprintf("root%d", i), Form: "annotated", Deps: drawDeps(-1, true)}
		if err := w.Publish(fmt.Sprintf("acme/root%d", i), "v1.1.0", spec2); err != nil {
			res.Trouble = err.Error()
			return
		}
		c.roots = append(c.roots, fmt.Sprintf("root%d", i))
	}
	// some runs: the user installs dependencies by hand, under names of their
	// own, also from a mirror registry (same repository path)
	byHand := t.Next(3) == 0
	chaos := 60 + t.Next(240)
	kit.DrawFaults(s, []sim.Outcome{sim.ErrBefore, sim.ErrAfter, sim.Conflict, sim.CrashBefore, sim.CrashAfter})
	var wl []string
	for _, r := range c.repos {
		for _, tag := range r.tags {
			wl = append(wl, fmt.Sprintf("%s %s:%s deps=%v", r.kind, r.repo, tag, w.Published[r.repo+":"+tag].Deps))
		}
	}
	for i, rn := range c.roots {
		wl = append(wl, fmt.Sprintf("root %s deps=%v", rn, w.Published[fmt.Sprintf("acme/root%d:v1.0.0", i)].Deps))
	}
	wl = append(wl, fmt.Sprintf("upgrades=%v downgrades=%v", o.Upgrades, o.Downgrades))
	res.Workload = wl
	for i, rn := range c.roots {
		if err := w.InstallPackage("Configuration", rn, fmt.Sprintf("acme/root%d", i), "v1.0.0", nil); err != nil {
			res.Trouble = err.Error()
			return
		}
	}
	w.Store.OnLog = append(w.Store.OnLog, c.onLog)
	hook := func() {
		for _, ctl := range w.Ctrls {
			if ctl.Name != "resolver" {
				continue
			}
			prev := ctl.OnStart
			ctl.OnStart = func(k types.NamespacedName, tk *sim.Task) {
				if prev != nil {
					prev(k, tk)
				}
				c.taskOf[tk.ID] = true
			}
		}
	}
	hook()
	w.OnDone = func(ctrl string, k types.NamespacedName, _ *sim.Task, _ int, _ reconcile.Result, err error) {
		if err != nil && os.Getenv("VERIF_DEBUG") != "" {
			fmt.Println("DEBUG", ctrl, k.Name, err)
		}
	}

	s.Phase = "chaos"
	for i := 0; i < chaos && len(s.Violations) == 0; i++ {
		acts := w.ReconcileActions()
		if w.Proc.Dead {
			acts = append(acts, sim.Action{Key: "restart pkg", Weight: 40, Run: func() { w.Restart(); hook() }})
		}
		acts = append(acts, sim.Action{Key: "registry: a new tag is published", Weight: 2, Run: func() { c.publishTag(t) }})
		acts = append(acts, sim.Action{Key: "a lock entry is in its legacy form (type only), as an older Crossplane wrote it", Weight: 1, Run: func() { c.legacyLockEntry(t) }})
		if byHand {
			acts = append(acts, sim.Action{Key: "user installs a dependency by hand under a name of their own", Weight: 1, Run: func() { c.installByHand(t, false) }})
			acts = append(acts, sim.Action{Key: "user installs a mirror of a dependency (same path, another registry)", Weight: 1, Run: func() { c.installByHand(t, true) }})
		}
		for i, rn := range c.roots {
			i, rn := i, rn
			if w.Store.Peek(simapi.ObjKey{Group: PkgGK["Configuration"].Group, Kind: "Configuration", Name: rn}) != nil {
				acts = append(acts, sim.Action{Key: "user deletes package " + rn, Weight: 1, Run: func() { c.deleteRoot(i, rn) }})
				acts = append(acts, sim.Action{Key: "user moves package " + rn + " to its other version", Weight: 2, Run: func() { c.switchRoot(i, rn) }})
			}
		}
		for _, k := range w.Store.GCCandidates() {
			k := k
			acts = append(acts, sim.Action{Key: "k8s-gc " + k.String(), Weight: 6, Run: func() { w.Store.GCStep(k) }})
		}
		acts = append(acts, sim.Action{Key: "advance 1s", Weight: 1, Run: func() { s.Advance(time.Second) }})
		if !s.StepOnce(acts, 30) {
			break
		}
	}
	s.Phase = "heal"
	if w.Proc.Dead {
		w.Restart()
		hook()
	}
	if !w.Heal(10, func() {
		for _, k := range w.Store.GCCandidates() {
			w.Store.GCStep(k)
		}
	}) {
		res.Inconclusive = "no-quiescence"
	}
	res.StateHashes = append(res.StateHashes, w.Store.StateHash())
	s.Shutdown(w.Proc)
}

func (c *c17) deleteRoot(i int, rn string) {
	u := &unstructured.Unstructured{}
	u.SetGroupVersionKind(PkgGK["Configuration"].WithVersion("v1"))
	u.SetName(rn)
	if c.w.Direct.Delete(context.Background(), u) == nil {
		c.w.S.Probe("package-deleted")
	}
}

func (c *c17) switchRoot(i int, rn string) {
	ctx := context.Background()
	u := &unstructured.Unstructured{}
	u.SetGroupVersionKind(PkgGK["Configuration"].WithVersion("v1"))
	if err := c.w.Direct.Get(ctx, types.NamespacedName{Name: rn}, u); err != nil {
		return
	}
	cur, _, _ := unstructured.NestedString(u.Object, "spec", "package")
	next := fmt.Sprintf("%s/acme/root%d:v1.1.0", Registry, i)
	if strings.HasSuffix(cur, ":v1.1.0") {
		next = fmt.Sprintf("%s/acme/root%d:v1.0.0", Registry, i)
	}
	_ = unstructured.SetNestedField(u.Object, next, "spec", "package")
	if c.w.Direct.Update(ctx, u) == nil {
		c.w.S.Probe("root-package-moved-to-other-version")
	}
}

// legacyLockEntry rewrites one entry of the Lock the way Crossplane versions
// before apiVersion/kind wrote it: the deprecated type field only.
func (c *c17) legacyLockEntry(t *sim.Tape) {
	ctx := context.Background()
	u := &unstructured.Unstructured{}
	u.SetGroupVersionKind(LockGVK)
	if c.w.Direct.Get(ctx, types.NamespacedName{Name: "lock"}, u) != nil {
		return
	}
	pkgs, _, _ := unstructured.NestedSlice(u.Object, "packages")
	if len(pkgs) == 0 {
		return
	}
	pm, _ := pkgs[t.Next(len(pkgs))].(map[string]any)
	k, _ := pm["kind"].(string)
	if k == "" {
		return
	}
	pm["type"] = k
	delete(pm, "kind")
	delete(pm, "apiVersion")
	_ = unstructured.SetNestedSlice(u.Object, pkgs, "packages")
	if c.w.Direct.Update(ctx, u) == nil {
		c.w.S.Probe("lock-entry-in-legacy-form")
	}
}

func (c *c17) installByHand(t *sim.Tape, mirror bool) {
	i := t.Next(len(c.repos))
	r := c.repos[i]
	if len(r.tags) == 0 {
		return
	}
	tag := r.tags[t.Next(len(r.tags))]
	n := fmt.Sprintf("my-dep%d", i)
	if mirror {
		n = fmt.Sprintf("mirror-dep%d", i)
	}
	if c.w.Store.Peek(simapi.ObjKey{Group: PkgGK[r.kind].Group, Kind: r.kind, Name: n}) != nil {
		return
	}
	err := c.w.InstallPackage(r.kind, n, r.repo, tag, func(p pkgv1.Package) {
		if mirror {
			src := "mirror.example.org/" + r.repo + ":" + tag
			c.w.Reg.TagMap[src] = c.w.Reg.TagMap[Registry+"/"+r.repo+":"+tag]
			p.SetSource(src)
		}
	})
	if err == nil {
		if mirror {
			c.w.S.Probe("mirror-of-a-dependency-installed-by-hand")
		} else {
			c.w.S.Probe("dependency-installed-by-hand")
		}
	}
}

func (c *c17) publishTag(t *sim.Tape) {
	i := t.Next(len(c.repos))
	r := c.repos[i]
	tag := tagPool[t.Next(len(tagPool))]
	for _, x := range r.tags {
		if x == tag {
			return
		}
	}
	spec := Spec{MetaKinds: []string{r.kind}, MetaName: fmt.Sprintf("dep%d", i), Form: "annotated"}
	if c.w.Publish(r.repo, tag, spec) == nil {
		r.tags = append(r.tags, tag)
	}
}

type lockPkg struct {
	name, source, version string
	deps                  []Dep
}

func (c *c17) lock() []lockPkg {
	return lockOf(c.w.Store.Peek(simapi.ObjKey{Group: LockGVK.Group, Kind: LockGVK.Kind, Name: "lock"}))
}

// lockRead returns the lock as the given task last read it.
func (c *c17) lockRead(taskID int) []lockPkg {
	for i := len(c.w.Store.Log) - 1; i >= 0; i-- {
		l := c.w.Store.Log[i]
		if l.TaskID == taskID && l.Key.Kind == "Lock" && l.After != nil && l.Err == nil && l.Injected == "" && (l.Read && l.Verb == "get" || l.Verb == "update") {
			return lockOf(l.After)
		}
	}
	return c.lock()
}

// tagsSeen returns the tag list the registry served to the task for repo.
func (c *c17) tagsSeen(taskID int, repo string) []string {
	for i := len(c.w.Reg.TagLists) - 1; i >= 0; i-- {
		if tc := c.w.Reg.TagLists[i]; tc.TaskID == taskID && tc.Repo == repo {
			return tc.Tags
		}
	}
	return c.w.Reg.ListTags(repo)
}

func lockOf(m map[string]any) []lockPkg {
	var out []lockPkg
	pkgs, _, _ := unstructured.NestedSlice(m, "packages")
	for _, p := range pkgs {
		pm, _ := p.(map[string]any)
		lp := lockPkg{name: fmt.Sprint(pm["name"]), source: fmt.Sprint(pm["source"]), version: fmt.Sprint(pm["version"])}
		ds, _ := pm["dependencies"].([]any)
		for _, d := range ds {
			dm, _ := d.(map[string]any)
			lp.deps = append(lp.deps, Dep{Repo: fmt.Sprint(dm["package"]), Constraint: fmt.Sprint(dm["constraints"])})
		}
		out = append(out, lp)
	}
	return out
}

// hasCycle is an independent DFS over the lock's dependency graph.
func hasCycle(lps []lockPkg) bool {
	adj := map[string][]string{}
	for _, lp := range lps {
		for _, d := range lp.deps {
			adj[lp.source] = append(adj[lp.source], d.Repo)
		}
	}
	color := map[string]int{}
	var visit func(string) bool
	visit = func(n string) bool {
		color[n] = 1
		for _, m := range adj[n] {
			if color[m] == 1 {
				return true
			}
			if color[m] == 0 && visit(m) {
				return true
			}
		}
		color[n] = 2
		return false
	}
	var nodes []string
	for n := range adj {
		nodes = append(nodes, n)
	}
	sort.Strings(nodes)
	for _, n := range nodes {
		if color[n] == 0 && visit(n) {
			return true
		}
	}
	return false
}

// satisfying returns the tags of repo (as the registry lists them now) that are
// semantic versions satisfying the constraint, sorted ascending.
func (c *c17) satisfying(tags []string, constraints ...string) ([]*semver.Version, bool) {
	var cs []*semver.Constraints
	for _, s := range constraints {
		k, err := semver.NewConstraint(s)
		if err != nil {
			return nil, false
		}
		cs = append(cs, k)
	}
	var out []*semver.Version
	for _, tg := range tags {
		v, err := semver.NewVersion(tg)
		if err != nil {
			continue
		}
		ok := true
		for _, k := range cs {
			ok = ok && k.Check(v)
		}
		if ok {
			out = append(out, v)
		}
	}
	sort.Sort(semver.Collection(out))
	return out, true
}

func (c *c17) onLog(e *simapi.LogEntry) {
	w := c.w
	if e.Read || e.Injected != "" || e.DryRun || e.Err != nil {
		return
	}
	// C08: a deleted package revision leaves the dependency lock before it is finalized
	if revisionKind(e.Key.Kind) && e.Actor == "pkg" && hasFinalizer(e.Before, "revision.pkg.crossplane.io") && !hasFinalizer(e.After, "revision.pkg.crossplane.io") {
		w.S.Probe("revision-finalized")
		for _, lp := range c.lock() {
			if lp.name == e.Key.Name {
				w.S.Violate("C08/revision-finalized-before-leaving-lock", fmt.Sprintf("revision %s lost its finalizer while the lock still lists it", e.Key.Name))
			}
		}
	}
	_, isPkg := PkgGK[e.Key.Kind]
	if isPkg && c.taskOf[e.TaskID] && (e.Verb == "create" || e.Verb == "update") && e.After != nil {
		c.judgeResolverWrite(e)
		return
	}
	if revisionKind(e.Key.Kind) && e.Verb == "update-status" && e.After != nil && condStatus(e.After, "Healthy") == "True" && condStatus(e.Before, "Healthy") != "True" {
		c.judgeSatisfied(e)
	}
	_ = w
}

// judgeResolverWrite: a package the resolver installs or moves carries a version
// the constraints justify.
func (c *c17) judgeResolverWrite(e *simapi.LogEntry) {
	w := c.w
	src, _, _ := unstructured.NestedString(e.After, "spec", "package")
	ref, err := name.ParseReference(src, name.WithDefaultRegistry(Registry))
	if err != nil {
		w.S.Violate("C17/resolver-wrote-unparsable-source", fmt.Sprintf("resolver wrote package %s with source %q", e.Key.Name, src))
		return
	}
	repo := ref.Context().Name()
	version := ref.Identifier()
	lps := c.lockRead(e.TaskID)
	tags := c.tagsSeen(e.TaskID, repo)
	if hasCycle(lps) {
		w.S.Violate("C17/installed-despite-cycle", fmt.Sprintf("the lock's dependency graph has a cycle but the resolver wrote package %s (%s)", e.Key.Name, src))
		return
	}
	var parents []string
	for _, lp := range lps {
		for _, d := range lp.deps {
			if d.Repo == repo {
				parents = append(parents, d.Constraint)
			}
		}
	}
	if len(parents) == 0 {
		w.S.Violate("C17/installed-without-dependent", fmt.Sprintf("resolver wrote package %s (%s) although no package in the lock depends on %s", e.Key.Name, src, repo))
		return
	}
	w.S.Probe("resolver-write-judged/" + e.Verb)
	if len(parents) > 1 {
		w.S.Probe("resolver-write-judged/" + e.Verb + "/several-parents")
	}
	if e.Verb == "create" && w.Opts.Upgrades {
		// with upgrades on the resolver looks for an installed package providing
		// the dependency first: it creates one only after a list that succeeded
		// and showed none
		var list *simapi.LogEntry
		for i := e.Seq - 1; i >= 0; i-- {
			if l := w.Store.Log[i]; l.TaskID == e.TaskID && l.Verb == "list" && strings.TrimSuffix(l.Key.Kind, "List") == e.Key.Kind {
				list = l
				break
			}
		}
		if list == nil || list.Err != nil || list.Injected != "" {
			w.S.Violate("C17/installed-without-knowing-what-is-installed", fmt.Sprintf("resolver created package %s (%s) although it had not managed to list the installed %ss", e.Key.Name, src, e.Key.Kind))
			return
		}
		for _, it := range list.Items {
			isrc, _, _ := unstructured.NestedString(it, "spec", "package")
			if iref, err := name.ParseReference(isrc, name.WithDefaultRegistry(Registry)); err == nil && iref.Context().Name() == repo {
				w.S.Violate("C17/installed-second-package-for-source", fmt.Sprintf("resolver created package %s (%s) although it had listed package %s, installed from %s", e.Key.Name, src, (&unstructured.Unstructured{Object: it}).GetName(), isrc))
				return
			}
		}
		w.S.Probe("resolver-create-after-list-judged")
	}
	if e.Verb == "create" {
		ok := false
		var why []string
		for _, con := range parents {
			if strings.HasPrefix(con, "sha256:") {
				if version == con {
					ok = true
				}
				why = append(why, con+" wants exactly that digest")
				continue
			}
			sat, valid := c.satisfying(tags, con)
			if !valid {
				why = append(why, con+" is not a valid constraint")
				continue
			}
			if len(sat) == 0 {
				why = append(why, con+" is satisfied by no tag")
				continue
			}
			best := sat[len(sat)-1].Original()
			why = append(why, fmt.Sprintf("%s wants %s", con, best))
			if version == best {
				ok = true
			}
		}
		if !ok {
			w.S.Violate("C17/installed-wrong-version", fmt.Sprintf("resolver installed %s at %s; constraints in the lock: %v (tags %v)", repo, version, why, tags))
		}
		return
	}
	// update (upgrade mode): lowest not-older version satisfying every parent,
	// or (downgrades) the highest older one
	before, _, _ := unstructured.NestedString(e.Before, "spec", "package")
	if before == src {
		return
	}
	bref, err := name.ParseReference(before, name.WithDefaultRegistry(Registry))
	if err != nil {
		return
	}
	if bref.Context().Name() != repo {
		w.S.Violate("C17/moved-unrelated-package", fmt.Sprintf("resolver rewrote package %s from %s to %s: another repository", e.Key.Name, before, src))
		return
	}
	var semcons []string
	for _, con := range parents {
		if strings.HasPrefix(con, "sha256:") {
			if version != con {
				w.S.Violate("C17/moved-off-pinned-digest", fmt.Sprintf("resolver moved %s to %s although a parent pins %s", repo, version, con))
			}
			return
		}
		semcons = append(semcons, con)
	}
	sat, valid := c.satisfying(tags, semcons...)
	if !valid {
		w.S.Violate("C17/moved-with-invalid-constraint", fmt.Sprintf("resolver moved %s to %s although a parent constraint is invalid: %v", repo, version, semcons))
		return
	}
	cur, err := semver.NewVersion(bref.Identifier())
	if err != nil {
		return
	}
	want := ""
	for _, v := range sat {
		if !v.LessThan(cur) {
			want = v.Original()
			break
		}
	}
	if want == "" && w.Opts.Downgrades && len(sat) > 0 {
		want = sat[len(sat)-1].Original()
	}
	if want == "" {
		w.S.Violate("C17/moved-without-valid-version", fmt.Sprintf("resolver moved %s from %s to %s although no tag satisfies every parent %v", repo, bref.Identifier(), version, semcons))
	} else if version != want {
		w.S.Violate("C17/moved-to-wrong-version", fmt.Sprintf("resolver moved %s from %s to %s; expected %s for parents %v (downgrades=%v)", repo, bref.Identifier(), version, want, semcons, w.Opts.Downgrades))
	}
}

// judgeSatisfied: a revision that proceeds to healthy with dependency
// resolution on has its whole dependency closure in the lock, and every direct
// dependency's locked version satisfies its constraint.
func (c *c17) judgeSatisfied(e *simapi.LogEntry) {
	w := c.w
	if skip, found, _ := unstructured.NestedBool(e.After, "spec", "skipDependencyResolution"); found && skip {
		return
	}
	if st, _, _ := unstructured.NestedString(e.After, "spec", "desiredState"); st != "Active" {
		return
	}
	img, _, _ := unstructured.NestedString(e.After, "spec", "image")
	sp, ok := w.Published[strings.TrimPrefix(img, Registry+"/")]
	if !ok {
		return
	}
	lps := c.lockRead(e.TaskID)
	bySource := map[string]lockPkg{}
	for _, lp := range lps {
		bySource[lp.source] = lp
	}
	w.S.Probe("healthy-with-dependencies-judged")
	// direct dependencies
	for _, d := range sp.Deps {
		lp, ok := bySource[d.Repo]
		if !ok {
			w.S.Violate("C17/satisfied-with-missing-dependency", fmt.Sprintf("revision %s reports healthy but its dependency %s is not in the lock", e.Key.Name, d.Repo))
			return
		}
		if strings.HasPrefix(d.Constraint, "sha256:") {
			if lp.version != d.Constraint {
				w.S.Violate("C17/satisfied-with-wrong-digest", fmt.Sprintf("revision %s reports healthy but %s is locked at %s, not %s", e.Key.Name, d.Repo, lp.version, d.Constraint))
			}
			continue
		}
		con, err := semver.NewConstraint(d.Constraint)
		if err != nil {
			w.S.Violate("C17/satisfied-with-invalid-constraint", fmt.Sprintf("revision %s reports healthy with the invalid constraint %q on %s", e.Key.Name, d.Constraint, d.Repo))
			continue
		}
		v, err := semver.NewVersion(lp.version)
		if err != nil || !con.Check(v) {
			w.S.Violate("C17/satisfied-with-incompatible-version", fmt.Sprintf("revision %s reports healthy but %s is locked at %s, which does not satisfy %q", e.Key.Name, d.Repo, lp.version, d.Constraint))
		}
	}
	// transitive closure present
	seen := map[string]bool{}
	var walk func(repo string)
	walk = func(repo string) {
		if seen[repo] {
			return
		}
		seen[repo] = true
		lp, ok := bySource[repo]
		if !ok {
			w.S.Violate("C17/satisfied-with-missing-transitive-dependency", fmt.Sprintf("revision %s reports healthy but %s (transitively required) is not in the lock", e.Key.Name, repo))
			return
		}
		for _, d := range lp.deps {
			walk(d.Repo)
		}
	}
	for _, d := range sp.Deps {
		walk(d.Repo)
	}
	_ = pkgv1.LabelParentPackage
	_ = context.Background
}

func hasFinalizer(m map[string]any, f string) bool {
	if m == nil {
		return false
	}
	for _, x := range (&unstructured.Unstructured{Object: m}).GetFinalizers() {
		if x == f {
			return true
		}
	}
	return false
}
