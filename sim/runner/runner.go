// Package runner drives batches of simulated runs for one property: seeded
// search, minimisation, replay, evidence (DESIGN.md §5).
package runner

import (
	"encoding/json"
	"fmt"
	"os"
	"runtime"
	"runtime/debug"
	"sort"
	"strconv"
	"strings"
	"testing"
	"testing/synctest"
	"time"

	"github.com/crossplane/crossplane/verifsim/sim"
)

// Result of one simulated run.
type Result struct {
	Violations   []*sim.Violation
	TraceHash    string
	Steps        int
	Interleave   int
	Faults       map[string]int
	Probes       map[string]int
	Counters     map[string]int // reconciles per controller etc.
	SimSeconds   float64
	Trace        []string
	Workload     any
	Inconclusive string // non-empty: run did not reach the state the oracle needs
	StateHashes  []string
	Trouble      string // harness trouble (exit 2)
}

// Prop is a property check.
type Prop interface {
	ID() string
	// Run performs one run driven by the tape. It must create everything inside
	// the bubble it is given.
	Run(t *testing.T, s *sim.Sim, res *Result)
	// Describe returns static evidence fields (world, real/stub table, assumptions, rule).
	Describe() Description
}

// Description is the static part of the evidence.
type Description struct {
	World       string
	Real        []string
	Stub        []string
	Assumptions []string
	Rule        string
	FaultKinds  []string
	RaceTier    bool
}

var registry = map[string]Prop{}

// Register adds a property check.
func Register(p Prop) { registry[p.ID()] = p }

// Get returns a registered property check.
func Get(id string) Prop { return registry[id] }

// IDs lists registered properties.
func IDs() []string {
	var ids []string
	for id := range registry {
		ids = append(ids, id)
	}
	sort.Strings(ids)
	return ids
}

// RunTape executes one run of p on a tape inside a fresh bubble.
func RunTape(t *testing.T, p Prop, tape *sim.Tape) (res *Result) {
	res = &Result{Faults: map[string]int{}, Probes: map[string]int{}, Counters: map[string]int{}}
	defer func() {
		if r := recover(); r != nil {
			buf := make([]byte, 1<<16)
			buf = buf[:runtime.Stack(buf, true)]
			res.Trouble = fmt.Sprintf("panic around bubble: %v\n%s\nALL GOROUTINES:\n%s", r, debug.Stack(), buf)
		}
	}()
	synctest.Test(t, func(t *testing.T) {
		start := time.Now()
		s := sim.New(tape)
		func() {
			defer func() {
				if r := recover(); r != nil {
					res.Trouble = fmt.Sprintf("panic in run: %v\n%s", r, debug.Stack())
					s.Shutdown()
				}
			}()
			p.Run(t, s, res)
		}()
		res.Violations = append(s.Violations, s.Noted...)
		if res.Trouble == "" {
			res.Trouble = s.Trouble
		}
		res.TraceHash = s.TraceHash()
		res.Steps = s.Step
		res.Interleave = s.Interleave
		for k, v := range s.Faults {
			res.Faults[k] += v
		}
		for k, v := range s.Probes {
			res.Probes[k] += v
		}
		res.Trace = s.Trace()
		res.SimSeconds = time.Since(start).Seconds()
	})
	return res
}

// Replay is the replay file format.
type Replay struct {
	Property  string   `json:"property"`
	Seed      uint64   `json:"seed"`
	RunSeed   uint64   `json:"run_seed"`
	Tape      []uint32 `json:"tape"`
	Signature string   `json:"signature"`
	Detail    string   `json:"detail"`
	Step      int      `json:"step"`
	TraceHash string   `json:"trace_hash"`
	Minimised bool     `json:"minimised"`
	OrigLen   int      `json:"original_tape_len"`
	Trace     []string `json:"trace_tail"`
	// PrefixRunSeeds are the run seeds this worker process executed before the
	// failing run. A violation that depends on process-global state of the code
	// under test (a package-level cache poisoned by an earlier run) replays only
	// after them; NeedsHistory is set once that has been established.
	PrefixRunSeeds []uint64 `json:"prefix_run_seeds,omitempty"`
	NeedsHistory   bool     `json:"needs_process_history,omitempty"`
}

// Summary is what a worker writes.
type Summary struct {
	Property        string            `json:"property"`
	Worker          int               `json:"worker"`
	Seed            uint64            `json:"seed"`
	Runs            int               `json:"runs"`
	WallS           float64           `json:"wall_s"`
	SimS            float64           `json:"sim_s"`
	Steps           int               `json:"steps"`
	Interleave      int               `json:"interleaved_steps"`
	Faults          map[string]int    `json:"faults_fired"`
	Probes          map[string]int    `json:"probes"`
	Counters        map[string]int    `json:"counters"`
	Hashes          []string          `json:"nontrivial_trace_hashes"`
	StateHashes     int               `json:"distinct_state_hashes"`
	Inconclusive    int               `json:"inconclusive"`
	InconclusiveWhy map[string]int    `json:"inconclusive_reasons"`
	Samples         []any             `json:"samples"`
	Violations      []ViolationRecord `json:"violations"`
	Trouble         string            `json:"trouble"`
}

// ViolationRecord is a violation found by a worker.
type ViolationRecord struct {
	Signature string `json:"signature"`
	Detail    string `json:"detail"`
	Replay    string `json:"replay"`
	RunSeed   uint64 `json:"run_seed"`
}

func envInt(name string, def int) int {
	if v := os.Getenv(name); v != "" {
		if n, err := strconv.Atoi(v); err == nil {
			return n
		}
	}
	return def
}

func mix(a, b uint64) uint64 {
	x := a*0x9e3779b97f4a7c15 ^ (b+0x7f4a7c15)*0xbf58476d1ce4e5b9
	x ^= x >> 29
	x *= 0x94d049bb133111eb
	x ^= x >> 32
	return x
}

// sigs returns the violation signatures of a result.
func sigs(r *Result) []string {
	var out []string
	for _, v := range r.Violations {
		out = append(out, v.Signature)
	}
	return out
}

func has(ss []string, s string) bool {
	for _, x := range ss {
		if x == s {
			return true
		}
	}
	return false
}

// Shrink minimises a tape under "signature sig still fires".
func Shrink(t *testing.T, p Prop, tape []uint32, sig string, budget time.Duration) []uint32 {
	deadline := time.Now().Add(budget)
	fires := func(tp []uint32) bool {
		r := RunTape(t, p, sim.ReplayTape(tp))
		return r.Trouble == "" && has(sigs(r), sig)
	}
	cur := append([]uint32(nil), tape...)
	// 1. truncate (binary search on prefix length; exhausted tape yields zeros)
	lo, hi := 0, len(cur)
	for lo < hi && time.Now().Before(deadline) {
		mid := (lo + hi) / 2
		if fires(cur[:mid]) {
			hi = mid
		} else {
			lo = mid + 1
		}
	}
	if hi < len(cur) && fires(cur[:hi]) {
		cur = cur[:hi]
	}
	// 2. zero blocks
	for size := len(cur) / 2; size >= 1 && time.Now().Before(deadline); size /= 2 {
		for i := 0; i+size <= len(cur) && time.Now().Before(deadline); i += size {
			allZero := true
			for _, v := range cur[i : i+size] {
				if v != 0 {
					allZero = false
				}
			}
			if allZero {
				continue
			}
			cand := append([]uint32(nil), cur...)
			for j := i; j < i+size; j++ {
				cand[j] = 0
			}
			if fires(cand) {
				cur = cand
			}
		}
	}
	// 3. shrink single values
	for i := 0; i < len(cur) && time.Now().Before(deadline); i++ {
		for cur[i] > 0 && time.Now().Before(deadline) {
			cand := append([]uint32(nil), cur...)
			cand[i] = cur[i] / 2
			if !fires(cand) {
				break
			}
			cur = cand
		}
	}
	// 4. trailing zeros are implicit
	for len(cur) > 0 && cur[len(cur)-1] == 0 {
		cur = cur[:len(cur)-1]
	}
	return cur
}

// Worker is the entry point of one worker process (called from the test binary).
func Worker(t *testing.T) {
	id := os.Getenv("VERIF_PROP")
	p := Get(id)
	if p == nil {
		fmt.Printf("TROUBLE unknown property %q (have %v)\n", id, IDs())
		os.Exit(2)
	}
	seed, _ := strconv.ParseUint(os.Getenv("VERIF_SEED"), 10, 64)
	worker := envInt("VERIF_WORKER", 0)
	workers := envInt("VERIF_WORKERS", 1)
	budget := time.Duration(envInt("VERIF_BUDGET_S", 20)) * time.Second
	maxRuns := envInt("VERIF_MAXRUNS", 1<<30)
	outPath := os.Getenv("VERIF_OUT")
	replayDir := os.Getenv("VERIF_REPLAY_DIR")
	shrinkBudget := time.Duration(envInt("VERIF_SHRINK_S", 60)) * time.Second

	if os.Getenv("VERIF_DESCRIBE") != "" {
		d := p.Describe()
		m := map[string]any{"World": d.World, "Real": d.Real, "Stub": d.Stub, "Assumptions": d.Assumptions, "Rule": d.Rule, "FaultKinds": d.FaultKinds, "race_tier": d.RaceTier}
		b, _ := json.Marshal(m)
		fmt.Printf("DESCRIBE %s\n", b)
		return
	}
	if rp := os.Getenv("VERIF_REPLAY"); rp != "" {
		replayFile(t, p, rp)
		return
	}
	if os.Getenv("VERIF_HASHES") != "" {
		// determinism self-test mode: print the trace hash of N runs
		n := envInt("VERIF_HASHES", 10)
		for i := 0; i < n; i++ {
			rs := mix(seed, uint64(i))
			r := RunTape(t, p, sim.NewTape(rs))
			if r.Trouble != "" {
				fmt.Printf("TROUBLE %s\n", r.Trouble)
				os.Exit(2)
			}
			fmt.Printf("HASH %d %s %v %s\n", i, r.TraceHash, sigs(r), r.Inconclusive)
			if d := os.Getenv("VERIF_DUMP"); d == strconv.Itoa(i) || d == "all" {
				fmt.Println(strings.Join(r.Trace, "\n"))
			}
		}
		return
	}

	sum := &Summary{Property: id, Worker: worker, Seed: seed, Faults: map[string]int{}, Probes: map[string]int{}, Counters: map[string]int{}, InconclusiveWhy: map[string]int{}}
	start := time.Now()
	hashes := map[string]bool{}
	states := map[string]bool{}
	seenSig := map[string]bool{}
	var history []uint64
	for i := 0; i < maxRuns && time.Since(start) < budget; i++ {
		runIdx := uint64(worker + i*workers)
		rs := mix(seed, runIdx)
		tape := sim.NewTape(rs)
		r := RunTape(t, p, tape)
		if r.Trouble != "" {
			sum.Trouble = fmt.Sprintf("run_seed=%d: %s", rs, r.Trouble)
			break
		}
		sum.Runs++
		sum.Steps += r.Steps
		sum.Interleave += r.Interleave
		sum.SimS += r.SimSeconds
		nf := 0
		for k, v := range r.Faults {
			sum.Faults[k] += v
			nf += v
		}
		for k, v := range r.Probes {
			sum.Probes[k] += v
		}
		for k, v := range r.Counters {
			sum.Counters[k] += v
		}
		if r.Inconclusive != "" {
			sum.Inconclusive++
			sum.InconclusiveWhy[r.Inconclusive]++
		}
		if nf > 0 || r.Interleave > 0 {
			hashes[r.TraceHash[:16]] = true
		}
		for _, h := range r.StateHashes {
			states[h] = true
		}
		if len(sum.Samples) < 2 && (nf > 0 || i > 3) {
			tr := r.Trace
			if len(tr) > 60 {
				tr = append(append([]string{}, tr[:40]...), "...", fmt.Sprintf("(%d more lines)", len(r.Trace)-40))
			}
			sum.Samples = append(sum.Samples, map[string]any{"run_seed": rs, "workload": r.Workload, "trace": tr, "faults": r.Faults})
		}
		for _, v := range r.Violations {
			if seenSig[v.Signature] {
				continue
			}
			seenSig[v.Signature] = true
			used := tape.Used()
			min := Shrink(t, p, used, v.Signature, shrinkBudget)
			// re-run the minimised tape to record its hash and detail
			rr := RunTape(t, p, sim.ReplayTape(min))
			rep := &Replay{Property: id, Seed: seed, RunSeed: rs, Tape: min, Signature: v.Signature, Minimised: true, OrigLen: len(used), PrefixRunSeeds: append([]uint64(nil), history...)}
			ok := false
			for _, vv := range rr.Violations {
				if vv.Signature == v.Signature {
					rep.Detail, rep.Step, ok = vv.Detail, vv.Step, true
				}
			}
			if !ok { // should not happen; fall back to the unminimised tape
				rr = RunTape(t, p, sim.ReplayTape(used))
				rep.Tape, rep.Minimised = used, false
				rep.Detail, rep.Step = v.Detail, v.Step
			}
			rep.TraceHash = rr.TraceHash
			tr := rr.Trace
			if len(tr) > 200 {
				tr = tr[len(tr)-200:]
			}
			rep.Trace = tr
			path := fmt.Sprintf("%s/%s-%d-w%d-%d.json", replayDir, id, seed, worker, len(sum.Violations))
			b, _ := json.MarshalIndent(rep, "", " ")
			if err := os.WriteFile(path, b, 0o644); err != nil {
				sum.Trouble = "cannot write replay: " + err.Error()
			}
			sum.Violations = append(sum.Violations, ViolationRecord{Signature: v.Signature, Detail: rep.Detail, Replay: path, RunSeed: rs})
		}
		if len(seenSig) >= 4 {
			break
		}
		history = append(history, rs)
	}
	sum.WallS = time.Since(start).Seconds()
	for h := range hashes {
		sum.Hashes = append(sum.Hashes, h)
	}
	sort.Strings(sum.Hashes)
	sum.StateHashes = len(states)
	b, _ := json.Marshal(sum)
	if outPath != "" {
		if err := os.WriteFile(outPath, b, 0o644); err != nil {
			fmt.Printf("TROUBLE cannot write summary: %v\n", err)
			os.Exit(2)
		}
	} else {
		fmt.Println(string(b))
	}
	if sum.Trouble != "" {
		fmt.Printf("TROUBLE %s\n", sum.Trouble)
		os.Exit(2)
	}
}

func replayFile(t *testing.T, p Prop, path string) {
	b, err := os.ReadFile(path)
	if err != nil {
		fmt.Printf("TROUBLE %v\n", err)
		os.Exit(2)
	}
	rep := &Replay{}
	if err := json.Unmarshal(b, rep); err != nil {
		fmt.Printf("TROUBLE %v\n", err)
		os.Exit(2)
	}
	withHistory := rep.NeedsHistory || os.Getenv("VERIF_REPLAY_HISTORY") != ""
	if withHistory {
		// bring the process into the state the failing run started from
		for _, rs := range rep.PrefixRunSeeds {
			if r := RunTape(t, p, sim.NewTape(rs)); r.Trouble != "" {
				fmt.Printf("TROUBLE %s\n", r.Trouble)
				os.Exit(2)
			}
		}
		fmt.Printf("REPLAY-HISTORY %d earlier runs of the worker process re-executed first\n", len(rep.PrefixRunSeeds))
	}
	r := RunTape(t, p, sim.ReplayTape(rep.Tape))
	if r.Trouble != "" {
		fmt.Printf("TROUBLE %s\n", r.Trouble)
		os.Exit(2)
	}
	if withHistory && !rep.NeedsHistory {
		// first confirmation with history: record what an exact replay looks like
		for _, v := range r.Violations {
			if v.Signature == rep.Signature {
				rep.NeedsHistory, rep.TraceHash, rep.Step, rep.Detail = true, r.TraceHash, v.Step, v.Detail
				tr := r.Trace
				if len(tr) > 200 {
					tr = tr[len(tr)-200:]
				}
				rep.Trace = tr
				if nb, err := json.MarshalIndent(rep, "", " "); err == nil {
					_ = os.WriteFile(path, nb, 0o644)
				}
			}
		}
	}
	if os.Getenv("VERIF_REPLAY_TRACE") != "" {
		fmt.Println(strings.Join(r.Trace, "\n"))
	}
	for _, v := range r.Violations {
		if v.Signature == rep.Signature {
			same := r.TraceHash == rep.TraceHash && v.Step == rep.Step
			fmt.Printf("REPLAY signature=%q step=%d trace_hash_match=%v\n", v.Signature, v.Step, same)
			fmt.Printf("DETAIL %s\n", v.Detail)
			if same {
				fmt.Printf("REPLAY-RESULT reproduced\n")
			} else {
				fmt.Printf("REPLAY-RESULT reproduced-different-trace\n")
			}
			return
		}
	}
	fmt.Printf("REPLAY-RESULT not-reproduced (signatures now: %v)\n", sigs(r))
}
