package simapi

import (
	"bytes"
	"fmt"
	"sort"
	"strconv"
	"strings"

	jsonpatch "github.com/evanphx/json-patch/v5"
	extv1 "k8s.io/apiextensions-apiserver/pkg/apis/apiextensions/v1"
	structuralschema "k8s.io/apiextensions-apiserver/pkg/apiserver/schema"
	"k8s.io/apiextensions-apiserver/pkg/apiserver/schema/pruning"
	kerrors "k8s.io/apimachinery/pkg/api/errors"
	apimeta "k8s.io/apimachinery/pkg/api/meta"
	metav1 "k8s.io/apimachinery/pkg/apis/meta/v1"
	"k8s.io/apimachinery/pkg/apis/meta/v1/unstructured"
	"k8s.io/apimachinery/pkg/labels"
	"k8s.io/apimachinery/pkg/runtime"
	"k8s.io/apimachinery/pkg/runtime/schema"
	"k8s.io/apimachinery/pkg/types"
	utiljson "k8s.io/apimachinery/pkg/util/json"
	utilrand "k8s.io/apimachinery/pkg/util/rand"
	"k8s.io/apimachinery/pkg/util/validation/field"
)

// ObjKey identifies an object independent of API version.
type ObjKey struct{ Group, Kind, NS, Name string }

func (k ObjKey) String() string { return k.Group + "/" + k.Kind + "/" + k.NS + "/" + k.Name }

// GK returns the group kind.
func (k ObjKey) GK() schema.GroupKind { return schema.GroupKind{Group: k.Group, Kind: k.Kind} }

// LogEntry is one request that reached the store (committed or not).
type LogEntry struct {
	Seq       int // position in the log
	Step      int // scheduler step
	Actor     string
	TaskID    int
	TaskLabel string
	Verb      string // create update update-status patch patch-status apply apply-status delete gc-delete
	Key       ObjKey
	DryRun    bool
	Before    map[string]any // nil if it did not exist
	After     map[string]any // nil if removed (or never created)
	Changed   bool           // stored bytes changed (resourceVersion bumped) or object removed
	Removed   bool
	Err       error
	Injected  string // non-empty: the request never reached the store (injected fault kind)
	Read      bool   // a served get/list (After = object returned by get; Count = items listed)
	Count     int
	Items     []map[string]any // list reads: the items served (read-only)
}

type histEntry struct {
	seq int
	obj map[string]any // nil = absent
}

// Caller identifies who issues a request (for the log).
type Caller struct {
	Actor     string
	TaskID    int
	TaskLabel string
}

// WriteOpts are the options of a write.
type WriteOpts struct {
	DryRun  bool
	Force   bool
	Manager string
	// delete
	PreconditionUID *types.UID
	PreconditionRV  *string
	Propagation     *metav1.DeletionPropagation
}

// AdmissionRequest is handed to admission plugins.
type AdmissionRequest struct {
	Operation string // CREATE UPDATE DELETE
	GVK       schema.GroupVersionKind
	Key       ObjKey
	Old, New  map[string]any
	Caller    Caller
	DryRun    bool
	Options   WriteOpts
}

// Store is the simulated API server's state.
type Store struct {
	Scheme *runtime.Scheme
	kinds  map[schema.GroupKind]*KindInfo
	objs   map[ObjKey]map[string]any
	hist   map[ObjKey][]histEntry
	rv     int64
	uidn   int
	Log    []*LogEntry
	// OnLog is called for every log entry (committed or failed).
	OnLog []func(*LogEntry)
	// Admission plugins run before a write is committed; an error rejects it.
	Admission []func(*AdmissionRequest) error
	StepFn    func() int
	// CRDEstablishImmediately sets the Established condition on create.
	CRDEstablishImmediately bool
}

// FinalizerCRDCleanup is the finalizer the API server puts on CRDs.
const FinalizerCRDCleanup = "customresourcecleanup.apiextensions.k8s.io"

// FinalizerForeground is the foreground deletion finalizer.
const FinalizerForeground = "foregroundDeletion"

// NewStore returns an empty store serving the built-in kinds.
func NewStore(s *runtime.Scheme) *Store {
	st := &Store{Scheme: s, kinds: map[schema.GroupKind]*KindInfo{}, objs: map[ObjKey]map[string]any{}, hist: map[ObjKey][]histEntry{},
		CRDEstablishImmediately: true, StepFn: func() int { return 0 }}
	for _, k := range builtinKinds() {
		st.kinds[k.GK] = k
	}
	return st
}

// Kind returns the serving info for a group kind.
func (s *Store) Kind(gk schema.GroupKind) *KindInfo { return s.kinds[gk] }

// Kinds returns all served kinds in canonical order.
func (s *Store) Kinds() []*KindInfo {
	var out []*KindInfo
	for _, k := range s.kinds {
		out = append(out, k)
	}
	sort.Slice(out, func(i, j int) bool { return out[i].GK.String() < out[j].GK.String() })
	return out
}

func stamp(m map[string]any, gvk schema.GroupVersionKind) map[string]any {
	if m != nil {
		m["apiVersion"] = gvk.GroupVersion().String()
	}
	return m
}

// storageFor resolves a (served) request version to the kind's storage
// version: objects are persisted - and their managed fields tracked - in the
// storage version whichever served version a request used (conversion
// strategy None: only apiVersion differs).
func (s *Store) storageFor(gvk schema.GroupVersionKind) (*KindInfo, *VersionInfo, schema.GroupVersionKind, error) {
	ki, vi, err := s.kindFor(gvk)
	if err != nil {
		return nil, nil, gvk, err
	}
	if ki.Storage != "" && ki.Storage != gvk.Version {
		if svi := ki.Versions[ki.Storage]; svi != nil {
			return ki, svi, ki.GK.WithVersion(ki.Storage), nil
		}
	}
	return ki, vi, gvk, nil
}

func (s *Store) kindFor(gvk schema.GroupVersionKind) (*KindInfo, *VersionInfo, error) {
	ki := s.kinds[gvk.GroupKind()]
	if ki == nil {
		return nil, nil, &apimeta.NoKindMatchError{GroupKind: gvk.GroupKind(), SearchedVersions: []string{gvk.Version}}
	}
	vi := ki.Versions[gvk.Version]
	if vi == nil {
		return nil, nil, &apimeta.NoKindMatchError{GroupKind: gvk.GroupKind(), SearchedVersions: []string{gvk.Version}}
	}
	return ki, vi, nil
}

// Normalize round-trips a value through JSON so that stored content is canonical.
func Normalize(m map[string]any) (map[string]any, error) {
	b, err := utiljson.Marshal(m)
	if err != nil {
		return nil, err
	}
	out := map[string]any{}
	if err := utiljson.Unmarshal(b, &out); err != nil {
		return nil, err
	}
	if md, ok := out["metadata"].(map[string]any); ok {
		for k, v := range md {
			if v == nil {
				delete(md, k)
			}
		}
	}
	return out, nil
}

func canon(m map[string]any) []byte {
	b, _ := utiljson.Marshal(m)
	return b
}

// Digest is a short stable digest of an object's content (without resourceVersion and managedFields).
func Digest(m map[string]any) string {
	if m == nil {
		return "<nil>"
	}
	c := runtime.DeepCopyJSON(m)
	unstructured.RemoveNestedField(c, "metadata", "resourceVersion")
	unstructured.RemoveNestedField(c, "metadata", "managedFields")
	return shortHash(canon(c))
}

func key(gk schema.GroupKind, ns, name string) ObjKey {
	return ObjKey{Group: gk.Group, Kind: gk.Kind, NS: ns, Name: name}
}

func (s *Store) logEntry(c Caller, verb string, k ObjKey, dry bool, before, after map[string]any, changed, removed bool, err error) *LogEntry {
	e := &LogEntry{Seq: len(s.Log), Step: s.StepFn(), Actor: c.Actor, TaskID: c.TaskID, TaskLabel: c.TaskLabel, Verb: verb, Key: k, DryRun: dry,
		Before: before, After: after, Changed: changed && !dry && err == nil, Removed: removed && !dry && err == nil, Err: err}
	s.Log = append(s.Log, e)
	for _, f := range s.OnLog {
		f(e)
	}
	return e
}

// Seq is the current log position (number of entries).
func (s *Store) Seq() int { return len(s.Log) }

// ---------------------------------------------------------------- reads

// Get returns a copy of the stored object, stamped with the requested version.
func (s *Store) Get(gvk schema.GroupVersionKind, ns, name string) (map[string]any, error) {
	ki, _, err := s.kindFor(gvk)
	if err != nil {
		return nil, err
	}
	if !ki.Namespaced {
		ns = ""
	}
	m, ok := s.objs[key(ki.GK, ns, name)]
	if !ok {
		return nil, kerrors.NewNotFound(ki.Resource(), name)
	}
	out := runtime.DeepCopyJSON(m)
	out["apiVersion"] = gvk.GroupVersion().String()
	return out, nil
}

// GetAt returns the object as it was when the log had `seq` entries.
func (s *Store) GetAt(seq int, gvk schema.GroupVersionKind, ns, name string) (map[string]any, error) {
	ki, _, err := s.kindFor(gvk)
	if err != nil {
		return nil, err
	}
	if !ki.Namespaced {
		ns = ""
	}
	m := s.at(seq, key(ki.GK, ns, name))
	if m == nil {
		return nil, kerrors.NewNotFound(ki.Resource(), name)
	}
	out := runtime.DeepCopyJSON(m)
	out["apiVersion"] = gvk.GroupVersion().String()
	return out, nil
}

func (s *Store) at(seq int, k ObjKey) map[string]any {
	h := s.hist[k]
	var cur map[string]any
	for _, e := range h {
		if e.seq < seq {
			cur = e.obj
		} else {
			break
		}
	}
	return cur
}

// List returns copies of all objects of a kind (sorted by namespace, name).
func (s *Store) List(gvk schema.GroupVersionKind, ns string, sel labels.Selector) ([]map[string]any, error) {
	return s.ListAt(-1, gvk, ns, sel)
}

// ListAt lists as of log position seq (-1 = now).
func (s *Store) ListAt(seq int, gvk schema.GroupVersionKind, ns string, sel labels.Selector) ([]map[string]any, error) {
	ki, _, err := s.kindFor(gvk)
	if err != nil {
		return nil, err
	}
	var keys []ObjKey
	if seq < 0 {
		for k := range s.objs {
			if k.Group == ki.GK.Group && k.Kind == ki.GK.Kind {
				keys = append(keys, k)
			}
		}
	} else {
		for k := range s.hist {
			if k.Group == ki.GK.Group && k.Kind == ki.GK.Kind {
				keys = append(keys, k)
			}
		}
	}
	sort.Slice(keys, func(i, j int) bool {
		if keys[i].NS != keys[j].NS {
			return keys[i].NS < keys[j].NS
		}
		return keys[i].Name < keys[j].Name
	})
	var out []map[string]any
	for _, k := range keys {
		if ns != "" && ki.Namespaced && k.NS != ns {
			continue
		}
		var m map[string]any
		if seq < 0 {
			m = s.objs[k]
		} else {
			m = s.at(seq, k)
		}
		if m == nil {
			continue
		}
		if sel != nil && !sel.Empty() {
			u := &unstructured.Unstructured{Object: m}
			if !sel.Matches(labels.Set(u.GetLabels())) {
				continue
			}
		}
		c := runtime.DeepCopyJSON(m)
		c["apiVersion"] = gvk.GroupVersion().String()
		out = append(out, c)
	}
	return out, nil
}

// Peek returns the stored object without copying (read-only use by oracles).
func (s *Store) Peek(k ObjKey) map[string]any { return s.objs[k] }

// Keys returns all object keys in canonical order.
func (s *Store) Keys() []ObjKey {
	keys := make([]ObjKey, 0, len(s.objs))
	for k := range s.objs {
		keys = append(keys, k)
	}
	sort.Slice(keys, func(i, j int) bool { return keys[i].String() < keys[j].String() })
	return keys
}

// KeysOf returns the keys of one group kind in canonical order.
func (s *Store) KeysOf(gk schema.GroupKind) []ObjKey {
	var keys []ObjKey
	for k := range s.objs {
		if k.Group == gk.Group && k.Kind == gk.Kind {
			keys = append(keys, k)
		}
	}
	sort.Slice(keys, func(i, j int) bool { return keys[i].String() < keys[j].String() })
	return keys
}

// StateHash is a digest of the whole store content.
func (s *Store) StateHash() string {
	var b bytes.Buffer
	for _, k := range s.Keys() {
		b.WriteString(k.String())
		b.WriteString(Digest(s.objs[k]))
	}
	return shortHash(b.Bytes())
}

// ---------------------------------------------------------------- writes

func invalid(ki *KindInfo, name string, errs ...*field.Error) error {
	return kerrors.NewInvalid(ki.GK, name, field.ErrorList(errs))
}

func validateMeta(ki *KindInfo, m map[string]any) error {
	u := &unstructured.Unstructured{Object: m}
	n := 0
	for i, r := range u.GetOwnerReferences() {
		p := field.NewPath("metadata", "ownerReferences").Index(i)
		if r.Controller != nil && *r.Controller {
			n++
		}
		if r.UID == "" {
			return invalid(ki, u.GetName(), field.Invalid(p.Child("uid"), r.UID, "uid must not be empty"))
		}
		if r.Name == "" {
			return invalid(ki, u.GetName(), field.Invalid(p.Child("name"), r.Name, "name must not be empty"))
		}
		if r.Kind == "" {
			return invalid(ki, u.GetName(), field.Invalid(p.Child("kind"), r.Kind, "kind must not be empty"))
		}
		if r.APIVersion == "" {
			return invalid(ki, u.GetName(), field.Invalid(p.Child("apiVersion"), r.APIVersion, "version must not be empty"))
		}
	}
	if n > 1 {
		return invalid(ki, u.GetName(), field.Invalid(field.NewPath("metadata", "ownerReferences"), n, "Only one reference can have Controller set to true"))
	}
	return nil
}

// admitCR prunes, defaults and validates a custom resource.
func admitCR(ki *KindInfo, vi *VersionInfo, m map[string]any) error {
	if vi.Structural == nil {
		return nil
	}
	pruning.PruneWithOptions(m, vi.Structural, true, structuralschema.UnknownFieldPathOptions{})
	dropNulls(m, vi.Structural)
	applyDefaults(m, vi.Structural)
	// validate everything but metadata (ObjectMeta is validated separately).
	c := make(map[string]any, len(m))
	for k, v := range m {
		if k != "metadata" {
			c[k] = v
		}
	}
	if md, ok := m["metadata"].(map[string]any); ok {
		mm := map[string]any{}
		if n, ok := md["name"]; ok {
			mm["name"] = n
		}
		c["metadata"] = mm
	}
	res := vi.Validator.Validate(c)
	if len(res.Errors) > 0 {
		var el field.ErrorList
		for _, e := range res.Errors {
			el = append(el, field.Invalid(field.NewPath(""), nil, e.Error()))
		}
		name, _, _ := unstructured.NestedString(m, "metadata", "name")
		return kerrors.NewInvalid(ki.GK, name, el)
	}
	return nil
}

func (s *Store) admit(req *AdmissionRequest) error {
	for _, a := range s.Admission {
		if err := a(req); err != nil {
			return err
		}
	}
	return nil
}

func specOf(m map[string]any) []byte {
	c := map[string]any{}
	for k, v := range m {
		if k != "metadata" && k != "status" {
			c[k] = v
		}
	}
	return canon(c)
}

// finish validates and commits `nm` as the new content of key k (old may be nil).
func (s *Store) finish(c Caller, verb string, ki *KindInfo, vi *VersionInfo, gvk schema.GroupVersionKind, k ObjKey, old, nm map[string]any, status bool, o WriteOpts, fmDone bool) (map[string]any, error) {
	fail := func(err error) (map[string]any, error) {
		s.logEntry(c, verb, k, o.DryRun, old, old, false, false, err)
		return nil, err
	}
	nm["apiVersion"], nm["kind"] = gvk.GroupVersion().String(), gvk.Kind
	nu := &unstructured.Unstructured{Object: nm}
	if old != nil {
		ou := &unstructured.Unstructured{Object: old}
		if uid := nu.GetUID(); uid != "" && uid != ou.GetUID() {
			return fail(kerrors.NewConflict(ki.Resource(), k.Name, fmt.Errorf("Precondition failed: UID in precondition: %v, UID in object meta: %v", uid, ou.GetUID())))
		}
		nu.SetUID(ou.GetUID())
		nu.SetCreationTimestamp(ou.GetCreationTimestamp())
		nu.SetGeneration(ou.GetGeneration())
		if ts := ou.GetDeletionTimestamp(); ts != nil {
			nu.SetDeletionTimestamp(ts)
			nu.SetDeletionGracePeriodSeconds(ou.GetDeletionGracePeriodSeconds())
		} else if verb != "delete" {
			nu.SetDeletionTimestamp(nil)
			unstructured.RemoveNestedField(nm, "metadata", "deletionGracePeriodSeconds")
		}
		nu.SetResourceVersion(ou.GetResourceVersion())
		if ou.GetDeletionTimestamp() != nil && verb != "delete" {
			// no new finalizers on a terminating object
			have := map[string]bool{}
			for _, f := range ou.GetFinalizers() {
				have[f] = true
			}
			for _, f := range nu.GetFinalizers() {
				if !have[f] {
					return fail(invalid(ki, k.Name, field.Forbidden(field.NewPath("metadata", "finalizers"), "no new finalizers can be added if the object is being deleted")))
				}
			}
		}
	} else {
		s.uidn++
		nu.SetUID(types.UID(fmt.Sprintf("uid-%04d", s.uidn)))
		nu.SetCreationTimestamp(metav1.Now())
		nu.SetGeneration(1)
		nu.SetDeletionTimestamp(nil)
		nu.SetResourceVersion("")
	}
	nu.SetName(k.Name)
	if ki.Namespaced {
		nu.SetNamespace(k.NS)
	} else {
		unstructured.RemoveNestedField(nm, "metadata", "namespace")
	}
	if status && old != nil {
		// only status may change through the status subresource
		merged := runtime.DeepCopyJSON(old)
		if st, ok := nm["status"]; ok {
			merged["status"] = st
		} else {
			delete(merged, "status")
		}
		if mf, ok, _ := unstructured.NestedFieldNoCopy(nm, "metadata", "managedFields"); ok && fmDone {
			_ = unstructured.SetNestedField(merged, runtime.DeepCopyJSONValue(mf), "metadata", "managedFields")
		}
		merged["apiVersion"], merged["kind"] = nm["apiVersion"], nm["kind"]
		nm = merged
		nu = &unstructured.Unstructured{Object: nm}
	} else if ki.HasStatus && verb != "delete" && verb != "gc" {
		// status is ignored on writes to the main resource
		if old != nil {
			if st, ok := old["status"]; ok {
				nm["status"] = runtime.DeepCopyJSONValue(st)
			} else {
				delete(nm, "status")
			}
		} else {
			delete(nm, "status")
		}
	}
	if ki.CRDName != "" {
		if err := admitCR(ki, vi, nm); err != nil {
			return fail(err)
		}
	}
	if err := validateMeta(ki, nm); err != nil {
		return fail(err)
	}
	var err error
	if nm, err = Normalize(nm); err != nil {
		return fail(kerrors.NewBadRequest(err.Error()))
	}
	nu = &unstructured.Unstructured{Object: nm}
	if !fmDone && vi.FM != nil && verb != "delete" && verb != "gc" {
		live := &unstructured.Unstructured{Object: map[string]any{}}
		if old != nil {
			live.Object = runtime.DeepCopyJSON(old)
		} else {
			live.SetGroupVersionKind(gvk)
		}
		fm := vi.FM
		if status {
			fm = vi.FMStatus
		}
		mgr := o.Manager
		if mgr == "" {
			mgr = "crossplane"
		}
		out, ferr := fm.Update(live, nu.DeepCopy(), mgr)
		if ferr == nil {
			nm = out.(*unstructured.Unstructured).Object
			if nm, err = Normalize(nm); err != nil {
				return fail(kerrors.NewBadRequest(err.Error()))
			}
			nu = &unstructured.Unstructured{Object: nm}
		}
	}
	op := "UPDATE"
	if old == nil {
		op = "CREATE"
	}
	if verb == "delete" {
		op = "DELETE"
	}
	if verb != "gc" && verb != "delete" {
		if err := s.admit(&AdmissionRequest{Operation: op, GVK: gvk, Key: k, Old: old, New: nm, Caller: c, DryRun: o.DryRun, Options: o}); err != nil {
			return fail(err)
		}
	}
	if old != nil && !bytes.Equal(specOf(old), specOf(nm)) {
		nu.SetGeneration(nu.GetGeneration() + 1)
	}
	removed := false
	if nu.GetDeletionTimestamp() != nil && len(nu.GetFinalizers()) == 0 {
		removed = true
	}
	if o.DryRun {
		s.logEntry(c, verb, k, true, old, nm, false, false, nil)
		return runtime.DeepCopyJSON(nm), nil
	}
	if removed {
		s.remove(c, verb, k, old)
		return runtime.DeepCopyJSON(nm), nil
	}
	changed := true
	if old != nil {
		if bytes.Equal(canon(old), canon(nm)) {
			changed = false
		}
	}
	if changed {
		s.rv++
		nu.SetResourceVersion(strconv.FormatInt(s.rv, 10))
		s.objs[k] = nm
		s.hist[k] = append(s.hist[k], histEntry{seq: len(s.Log), obj: nm})
	}
	s.logEntry(c, verb, k, false, old, nm, changed, false, nil)
	if changed && k.Group == "apiextensions.k8s.io" && k.Kind == "CustomResourceDefinition" {
		s.crdChanged(k, nm)
	}
	return runtime.DeepCopyJSON(nm), nil
}

func (s *Store) remove(c Caller, verb string, k ObjKey, old map[string]any) {
	delete(s.objs, k)
	s.rv++
	s.hist[k] = append(s.hist[k], histEntry{seq: len(s.Log), obj: nil})
	s.logEntry(c, verb, k, false, old, nil, true, true, nil)
	if k.Group == "apiextensions.k8s.io" && k.Kind == "CustomResourceDefinition" {
		s.crdRemoved(old)
	}
}

func (s *Store) crdChanged(k ObjKey, m map[string]any) {
	crd := &extv1.CustomResourceDefinition{}
	b, _ := utiljson.Marshal(m)
	if err := utiljson.Unmarshal(b, crd); err != nil {
		return
	}
	ki, err := CompileCRD(crd)
	if err != nil {
		return
	}
	s.kinds[ki.GK] = ki
}

func (s *Store) crdRemoved(old map[string]any) {
	g, _, _ := unstructured.NestedString(old, "spec", "group")
	kd, _, _ := unstructured.NestedString(old, "spec", "names", "kind")
	gk := schema.GroupKind{Group: g, Kind: kd}
	if ki := s.kinds[gk]; ki != nil && ki.CRDName != "" {
		delete(s.kinds, gk)
	}
}

func (s *Store) crdTerminating(ki *KindInfo) bool {
	if ki.CRDName == "" {
		return false
	}
	m := s.objs[ObjKey{Group: "apiextensions.k8s.io", Kind: "CustomResourceDefinition", Name: ki.CRDName}]
	if m == nil {
		return false
	}
	return (&unstructured.Unstructured{Object: m}).GetDeletionTimestamp() != nil
}

// Create creates an object.
func (s *Store) Create(c Caller, gvk schema.GroupVersionKind, m map[string]any, o WriteOpts) (map[string]any, error) {
	reqGVK := gvk
	ki, vi, gvk, err := s.storageFor(gvk)
	if err != nil {
		return nil, err
	}
	m, err = Normalize(m)
	if err != nil {
		return nil, kerrors.NewBadRequest(err.Error())
	}
	u := &unstructured.Unstructured{Object: m}
	name := u.GetName()
	if name == "" && u.GetGenerateName() != "" {
		name = u.GetGenerateName() + utilrand.String(5)
		u.SetName(name)
	}
	ns := u.GetNamespace()
	if !ki.Namespaced {
		ns = ""
	}
	k := key(ki.GK, ns, name)
	if name == "" {
		err := invalid(ki, "", field.Required(field.NewPath("metadata", "name"), "name or generateName is required"))
		s.logEntry(c, "create", k, o.DryRun, nil, nil, false, false, err)
		return nil, err
	}
	if _, ok := s.objs[k]; ok {
		err := kerrors.NewAlreadyExists(ki.Resource(), name)
		s.logEntry(c, "create", k, o.DryRun, s.objs[k], s.objs[k], false, false, err)
		return nil, err
	}
	if s.crdTerminating(ki) {
		err := kerrors.NewMethodNotSupported(ki.Resource(), "create")
		s.logEntry(c, "create", k, o.DryRun, nil, nil, false, false, err)
		return nil, err
	}
	if gvk.Group == "apiextensions.k8s.io" && gvk.Kind == "CustomResourceDefinition" {
		s.prepareCRD(m)
	}
	var st any
	if ki.HasStatus && gvk.Kind == "CustomResourceDefinition" {
		st = m["status"]
	}
	out, err := s.finish(c, "create", ki, vi, gvk, k, nil, m, false, o, false)
	_ = st
	if err == nil && !o.DryRun && s.CRDEstablishImmediately && gvk.Kind == "CustomResourceDefinition" && gvk.Group == "apiextensions.k8s.io" {
		s.EstablishCRD(name)
		out, _ = s.Get(gvk, "", name)
	}
	return stamp(out, reqGVK), err
}

func (s *Store) prepareCRD(m map[string]any) {
	u := &unstructured.Unstructured{Object: m}
	fs := u.GetFinalizers()
	has := false
	for _, f := range fs {
		if f == FinalizerCRDCleanup {
			has = true
		}
	}
	if !has {
		u.SetFinalizers(append(fs, FinalizerCRDCleanup))
	}
}

// EstablishCRD sets the Established and NamesAccepted conditions of a CRD (the
// API server's CRD controllers).
func (s *Store) EstablishCRD(name string) {
	k := ObjKey{Group: "apiextensions.k8s.io", Kind: "CustomResourceDefinition", Name: name}
	m := s.objs[k]
	if m == nil {
		return
	}
	nm := runtime.DeepCopyJSON(m)
	conds, _, _ := unstructured.NestedSlice(nm, "status", "conditions")
	for _, c := range conds {
		if cm, ok := c.(map[string]any); ok && cm["type"] == "Established" && cm["status"] == "True" {
			return
		}
	}
	now := metav1.Now().UTC().Format("2006-01-02T15:04:05Z")
	conds = append(conds,
		map[string]any{"type": "NamesAccepted", "status": "True", "reason": "NoConflicts", "message": "no conflicts found", "lastTransitionTime": now},
		map[string]any{"type": "Established", "status": "True", "reason": "InitialNamesAccepted", "message": "the initial names have been accepted", "lastTransitionTime": now})
	_ = unstructured.SetNestedSlice(nm, conds, "status", "conditions")
	gvk := schema.GroupVersionKind{Group: k.Group, Version: "v1", Kind: k.Kind}
	ki, vi, _ := s.kindFor(gvk)
	_, _ = s.finish(Caller{Actor: "apiserver"}, "update-status", ki, vi, gvk, k, m, nm, true, WriteOpts{}, false)
}

// Update replaces an object (or its status).
func (s *Store) Update(c Caller, gvk schema.GroupVersionKind, m map[string]any, status bool, o WriteOpts) (map[string]any, error) {
	reqGVK := gvk
	ki, vi, gvk, err := s.storageFor(gvk)
	if err != nil {
		return nil, err
	}
	m, err = Normalize(m)
	if err != nil {
		return nil, kerrors.NewBadRequest(err.Error())
	}
	u := &unstructured.Unstructured{Object: m}
	ns := u.GetNamespace()
	if !ki.Namespaced {
		ns = ""
	}
	k := key(ki.GK, ns, u.GetName())
	verb := "update"
	if status {
		verb = "update-status"
	}
	old, ok := s.objs[k]
	if !ok {
		err := kerrors.NewNotFound(ki.Resource(), u.GetName())
		s.logEntry(c, verb, k, o.DryRun, nil, nil, false, false, err)
		return nil, err
	}
	ou := &unstructured.Unstructured{Object: old}
	if rv := u.GetResourceVersion(); rv != "" && rv != ou.GetResourceVersion() {
		err := kerrors.NewConflict(ki.Resource(), u.GetName(), fmt.Errorf("the object has been modified; please apply your changes to the latest version and try again"))
		s.logEntry(c, verb, k, o.DryRun, old, old, false, false, err)
		return nil, err
	}
	out, err := s.finish(c, verb, ki, vi, gvk, k, old, m, status && ki.HasStatus, o, false)
	return stamp(out, reqGVK), err
}

// Patch applies a merge, JSON or apply patch.
func (s *Store) Patch(c Caller, gvk schema.GroupVersionKind, ns, name string, pt types.PatchType, data []byte, status bool, o WriteOpts) (map[string]any, error) {
	reqGVK := gvk
	ki, vi, gvk, err := s.storageFor(gvk)
	if err != nil {
		return nil, err
	}
	if !ki.Namespaced {
		ns = ""
	}
	k := key(ki.GK, ns, name)
	old, exists := s.objs[k]
	verb := "patch"
	if pt == types.ApplyPatchType {
		verb = "apply"
	}
	if status {
		verb += "-status"
	}
	fail := func(err error) (map[string]any, error) {
		s.logEntry(c, verb, k, o.DryRun, old, old, false, false, err)
		return nil, err
	}
	var nm map[string]any
	fmDone := false
	switch pt {
	case types.ApplyPatchType:
		patchObj := &unstructured.Unstructured{}
		if err := utiljson.Unmarshal(data, &patchObj.Object); err != nil {
			return fail(kerrors.NewBadRequest(err.Error()))
		}
		if o.Manager == "" {
			return fail(kerrors.NewBadRequest("PatchOptions.meta.k8s.io is invalid: fieldManager: Required value: is required for apply patch"))
		}
		if !exists && status {
			return fail(kerrors.NewNotFound(ki.Resource(), name))
		}
		if !exists && s.crdTerminating(ki) {
			return fail(kerrors.NewMethodNotSupported(ki.Resource(), "create"))
		}
		if exists {
			if rv := patchObj.GetResourceVersion(); rv != "" && rv != (&unstructured.Unstructured{Object: old}).GetResourceVersion() {
				return fail(kerrors.NewConflict(ki.Resource(), name, fmt.Errorf("the object has been modified; please apply your changes to the latest version and try again")))
			}
			if uid := patchObj.GetUID(); uid != "" && uid != (&unstructured.Unstructured{Object: old}).GetUID() {
				return fail(kerrors.NewConflict(ki.Resource(), name, fmt.Errorf("Precondition failed: UID in precondition: %v, UID in object meta: %v", uid, (&unstructured.Unstructured{Object: old}).GetUID())))
			}
		}
		unstructured.RemoveNestedField(patchObj.Object, "metadata", "resourceVersion")
		unstructured.RemoveNestedField(patchObj.Object, "metadata", "uid")
		unstructured.RemoveNestedField(patchObj.Object, "metadata", "creationTimestamp")
		unstructured.RemoveNestedField(patchObj.Object, "metadata", "managedFields")
		unstructured.RemoveNestedField(patchObj.Object, "metadata", "generation")
		patchObj.SetGroupVersionKind(gvk)
		patchObj.SetName(name)
		if ki.Namespaced {
			patchObj.SetNamespace(ns)
		}
		fm := vi.FM
		if status {
			fm = vi.FMStatus
		}
		if fm == nil {
			return fail(kerrors.NewBadRequest(fmt.Sprintf("simapi: server-side apply is not modelled for built-in kind %s", gvk.Kind)))
		}
		if ki.HasStatus {
			if status {
				keep := map[string]any{"apiVersion": patchObj.Object["apiVersion"], "kind": patchObj.Object["kind"], "metadata": patchObj.Object["metadata"]}
				if st, ok := patchObj.Object["status"]; ok {
					keep["status"] = st
				}
				md := map[string]any{"name": name}
				if ki.Namespaced {
					md["namespace"] = ns
				}
				keep["metadata"] = md
				patchObj.Object = keep
			} else {
				delete(patchObj.Object, "status")
			}
		}
		// the apply configuration is pruned like any request body
		if vi.Structural != nil {
			pruning.PruneWithOptions(patchObj.Object, vi.Structural, true, structuralschema.UnknownFieldPathOptions{})
		}
		live := &unstructured.Unstructured{Object: map[string]any{}}
		if exists {
			live.Object = runtime.DeepCopyJSON(old)
			live.SetGroupVersionKind(gvk)
		} else {
			live.SetGroupVersionKind(gvk)
			live.SetName(name)
			if ki.Namespaced {
				live.SetNamespace(ns)
			}
		}
		out, err := fm.Apply(live, patchObj, o.Manager, o.Force)
		if err != nil {
			if kerrors.IsConflict(err) || kerrors.IsInvalid(err) || kerrors.IsBadRequest(err) {
				return fail(err)
			}
			return fail(kerrors.NewBadRequest(err.Error()))
		}
		nm = out.(*unstructured.Unstructured).Object
		fmDone = true
		if !exists {
			old = nil
		}
	case types.MergePatchType:
		if !exists {
			return fail(kerrors.NewNotFound(ki.Resource(), name))
		}
		ob, _ := utiljson.Marshal(old)
		nb, err := jsonpatch.MergePatch(ob, data)
		if err != nil {
			return fail(kerrors.NewBadRequest(err.Error()))
		}
		if err := utiljson.Unmarshal(nb, &nm); err != nil {
			return fail(kerrors.NewBadRequest(err.Error()))
		}
		if rv := (&unstructured.Unstructured{Object: nm}).GetResourceVersion(); rv != (&unstructured.Unstructured{Object: old}).GetResourceVersion() {
			return fail(kerrors.NewConflict(ki.Resource(), name, fmt.Errorf("the object has been modified; please apply your changes to the latest version and try again")))
		}
	case types.JSONPatchType:
		if !exists {
			return fail(kerrors.NewNotFound(ki.Resource(), name))
		}
		ob, _ := utiljson.Marshal(old)
		jp, err := jsonpatch.DecodePatch(data)
		if err != nil {
			return fail(kerrors.NewBadRequest(err.Error()))
		}
		nb, err := jp.Apply(ob)
		if err != nil {
			return fail(kerrors.NewInvalid(ki.GK, name, field.ErrorList{field.Invalid(field.NewPath("patch"), nil, err.Error())}))
		}
		if err := utiljson.Unmarshal(nb, &nm); err != nil {
			return fail(kerrors.NewBadRequest(err.Error()))
		}
		if rv := (&unstructured.Unstructured{Object: nm}).GetResourceVersion(); rv != (&unstructured.Unstructured{Object: old}).GetResourceVersion() {
			return fail(kerrors.NewConflict(ki.Resource(), name, fmt.Errorf("the object has been modified; please apply your changes to the latest version and try again")))
		}
	default:
		return fail(kerrors.NewBadRequest("unsupported patch type " + string(pt)))
	}
	out, err := s.finish(c, verb, ki, vi, gvk, k, old, nm, status && ki.HasStatus, o, fmDone)
	return stamp(out, reqGVK), err
}

// Delete deletes (or marks for deletion) an object.
func (s *Store) Delete(c Caller, gvk schema.GroupVersionKind, ns, name string, o WriteOpts) error {
	reqGVK := gvk
	ki, vi, gvk, err := s.storageFor(gvk)
	if err != nil {
		return err
	}
	if !ki.Namespaced {
		ns = ""
	}
	k := key(ki.GK, ns, name)
	old, ok := s.objs[k]
	if !ok {
		err := kerrors.NewNotFound(ki.Resource(), name)
		s.logEntry(c, "delete", k, o.DryRun, nil, nil, false, false, err)
		return err
	}
	ou := &unstructured.Unstructured{Object: old}
	fail := func(err error) error {
		s.logEntry(c, "delete", k, o.DryRun, old, old, false, false, err)
		return err
	}
	if o.PreconditionUID != nil && *o.PreconditionUID != ou.GetUID() {
		return fail(kerrors.NewConflict(ki.Resource(), name, fmt.Errorf("Precondition failed: UID in precondition: %v, UID in object meta: %v", *o.PreconditionUID, ou.GetUID())))
	}
	if o.PreconditionRV != nil && *o.PreconditionRV != ou.GetResourceVersion() {
		return fail(kerrors.NewConflict(ki.Resource(), name, fmt.Errorf("Precondition failed: ResourceVersion in precondition: %v, ResourceVersion in object meta: %v", *o.PreconditionRV, ou.GetResourceVersion())))
	}
	if c.Actor != "gc" && c.Actor != "apiserver" {
		if err := s.admit(&AdmissionRequest{Operation: "DELETE", GVK: reqGVK, Key: k, Old: runtime.DeepCopyJSON(old), Caller: c, DryRun: o.DryRun, Options: o}); err != nil {
			return fail(err)
		}
		// an admission plugin may have written to the object: re-read.
		old = s.objs[k]
		ou = &unstructured.Unstructured{Object: old}
	}
	nm := runtime.DeepCopyJSON(old)
	nu := &unstructured.Unstructured{Object: nm}
	if o.Propagation != nil && *o.Propagation == metav1.DeletePropagationForeground {
		has := false
		for _, f := range nu.GetFinalizers() {
			if f == FinalizerForeground {
				has = true
			}
		}
		if !has {
			nu.SetFinalizers(append(nu.GetFinalizers(), FinalizerForeground))
		}
	}
	if nu.GetDeletionTimestamp() == nil {
		now := metav1.Now()
		nu.SetDeletionTimestamp(&now)
		zero := int64(0)
		nu.SetDeletionGracePeriodSeconds(&zero)
	}
	_, err = s.finish(c, "delete", ki, vi, gvk, k, old, nm, false, o, true)
	return err
}

// ---------------------------------------------------------------- actors

// GCCandidates returns objects the Kubernetes garbage collector could act on
// now, in canonical order: dependents all of whose owners are gone, and
// foreground-deleting owners.
func (s *Store) GCCandidates() []ObjKey {
	uids := map[types.UID]bool{}
	for _, m := range s.objs {
		uids[(&unstructured.Unstructured{Object: m}).GetUID()] = true
	}
	var out []ObjKey
	for _, k := range s.Keys() {
		u := &unstructured.Unstructured{Object: s.objs[k]}
		refs := u.GetOwnerReferences()
		if len(refs) > 0 && u.GetDeletionTimestamp() == nil {
			all := true
			for _, r := range refs {
				if uids[r.UID] {
					all = false
				}
			}
			if all {
				out = append(out, k)
				continue
			}
		}
		if u.GetDeletionTimestamp() != nil {
			for _, f := range u.GetFinalizers() {
				if f == FinalizerForeground {
					out = append(out, k)
				}
			}
		}
	}
	return out
}

// GCStep performs one garbage collector action on k.
func (s *Store) GCStep(k ObjKey) {
	m := s.objs[k]
	if m == nil {
		return
	}
	u := &unstructured.Unstructured{Object: m}
	ki := s.kinds[k.GK()]
	if ki == nil {
		return
	}
	gvk := k.GK().WithVersion(u.GroupVersionKind().Version)
	c := Caller{Actor: "gc"}
	if u.GetDeletionTimestamp() != nil {
		// foreground: delete blocking dependents first, then drop the finalizer
		blocked := false
		for _, dk := range s.Keys() {
			d := &unstructured.Unstructured{Object: s.objs[dk]}
			for _, r := range d.GetOwnerReferences() {
				if r.UID == u.GetUID() && r.BlockOwnerDeletion != nil && *r.BlockOwnerDeletion {
					blocked = true
					if d.GetDeletionTimestamp() == nil {
						fg := metav1.DeletePropagationForeground
						_ = s.Delete(c, dk.GK().WithVersion(d.GroupVersionKind().Version), dk.NS, dk.Name, WriteOpts{Propagation: &fg})
					}
				}
			}
		}
		if blocked {
			return
		}
		nm := runtime.DeepCopyJSON(m)
		nu := &unstructured.Unstructured{Object: nm}
		var fs []string
		for _, f := range nu.GetFinalizers() {
			if f != FinalizerForeground {
				fs = append(fs, f)
			}
		}
		nu.SetFinalizers(fs)
		_, vi, _ := s.kindFor(gvk)
		_, _ = s.finish(c, "gc", ki, vi, gvk, k, m, nm, false, WriteOpts{}, true)
		return
	}
	bg := metav1.DeletePropagationBackground
	_ = s.Delete(c, gvk, k.NS, k.Name, WriteOpts{Propagation: &bg})
}

// CRDCleanupCandidates returns terminating CRDs that still carry the cleanup finalizer.
func (s *Store) CRDCleanupCandidates() []string {
	var out []string
	for _, k := range s.KeysOf(schema.GroupKind{Group: "apiextensions.k8s.io", Kind: "CustomResourceDefinition"}) {
		u := &unstructured.Unstructured{Object: s.objs[k]}
		if u.GetDeletionTimestamp() == nil {
			continue
		}
		for _, f := range u.GetFinalizers() {
			if f == FinalizerCRDCleanup {
				out = append(out, k.Name)
			}
		}
	}
	return out
}

// CRDCleanupStep deletes the instances of a terminating CRD and, once none is
// left, removes the cleanup finalizer so the CRD disappears.
func (s *Store) CRDCleanupStep(name string) {
	k := ObjKey{Group: "apiextensions.k8s.io", Kind: "CustomResourceDefinition", Name: name}
	m := s.objs[k]
	if m == nil {
		return
	}
	g, _, _ := unstructured.NestedString(m, "spec", "group")
	kd, _, _ := unstructured.NestedString(m, "spec", "names", "kind")
	gk := schema.GroupKind{Group: g, Kind: kd}
	c := Caller{Actor: "apiserver"}
	left := 0
	for _, ik := range s.KeysOf(gk) {
		left++
		iu := &unstructured.Unstructured{Object: s.objs[ik]}
		if iu.GetDeletionTimestamp() == nil {
			_ = s.Delete(c, gk.WithVersion(iu.GroupVersionKind().Version), ik.NS, ik.Name, WriteOpts{})
		}
	}
	if len(s.KeysOf(gk)) > 0 {
		return
	}
	nm := runtime.DeepCopyJSON(m)
	nu := &unstructured.Unstructured{Object: nm}
	var fs []string
	for _, f := range nu.GetFinalizers() {
		if f != FinalizerCRDCleanup {
			fs = append(fs, f)
		}
	}
	nu.SetFinalizers(fs)
	gvk := schema.GroupVersionKind{Group: k.Group, Version: "v1", Kind: k.Kind}
	ki, vi, _ := s.kindFor(gvk)
	_, _ = s.finish(c, "gc", ki, vi, gvk, k, m, nm, false, WriteOpts{}, true)
}

func shortHash(b []byte) string {
	h := fnv64(b)
	return strconv.FormatUint(h, 36)
}

func fnv64(b []byte) uint64 {
	var h uint64 = 14695981039346656037
	for _, c := range b {
		h ^= uint64(c)
		h *= 1099511628211
	}
	return h
}

// Describe renders a log entry for the trace.
func (e *LogEntry) Describe() string {
	st := "ok"
	if e.Injected != "" {
		return fmt.Sprintf("%s %s %s injected:%s", e.Actor, e.Verb, e.Key, e.Injected)
	}
	if e.Err != nil {
		st = "err:" + string(kerrors.ReasonForError(e.Err))
		if kerrors.IsBadRequest(e.Err) {
			st += "(" + e.Err.Error() + ")"
		}
		if kerrors.ReasonForError(e.Err) == metav1.StatusReasonUnknown {
			st = "err:" + strings.SplitN(e.Err.Error(), ":", 2)[0]
		}
	}
	d := ""
	if e.DryRun {
		d = " dry"
	}
	ch := ""
	if e.Changed {
		ch = " changed=" + Digest(e.After)
	}
	if e.Removed {
		ch = " removed"
	}
	return fmt.Sprintf("%s %s %s%s %s%s", e.Actor, e.Verb, e.Key, d, st, ch)
}

// Serve registers a kind without storing a CRD object for it (used for the
// core Crossplane CRDs, which are installed before any controller runs).
func (s *Store) Serve(ki *KindInfo) { s.kinds[ki.GK] = ki }

// LogInjected records a request that the fault injector answered itself.
func (s *Store) LogInjected(c Caller, verb string, gvk schema.GroupVersionKind, ns, name, kind string) {
	e := &LogEntry{Seq: len(s.Log), Step: s.StepFn(), Actor: c.Actor, TaskID: c.TaskID, TaskLabel: c.TaskLabel, Verb: verb,
		Key: ObjKey{Group: gvk.Group, Kind: gvk.Kind, NS: ns, Name: name}, Injected: kind, Err: fmt.Errorf("injected %s", kind)}
	s.Log = append(s.Log, e)
	for _, f := range s.OnLog {
		f(e)
	}
}

// IsWrite reports whether the entry is a (non-dry-run) mutating request that reached the store.
func (e *LogEntry) IsWrite() bool {
	return e.Injected == "" && !e.DryRun && !e.Read
}

// StateAt returns (without copying) the object as it was when the log had seq entries.
func (s *Store) StateAt(seq int, k ObjKey) map[string]any { return s.at(seq, k) }

// KeysOfEver returns the keys of every object of a group kind that ever existed.
func (s *Store) KeysOfEver(gk schema.GroupKind) []ObjKey {
	var keys []ObjKey
	for k := range s.hist {
		if k.Group == gk.Group && k.Kind == gk.Kind {
			keys = append(keys, k)
		}
	}
	sort.Slice(keys, func(i, j int) bool { return keys[i].String() < keys[j].String() })
	return keys
}

// VersionsBetween returns every version object k had while the log position
// was in [from, to] (the version current at `from` plus all later ones up to `to`).
func (s *Store) VersionsBetween(k ObjKey, from, to int) []map[string]any {
	var out []map[string]any
	var cur map[string]any
	for _, e := range s.hist[k] {
		if e.seq < from {
			cur = e.obj
			continue
		}
		if e.seq > to {
			break
		}
		if cur != nil {
			out = append(out, cur)
			cur = nil
		}
		if e.obj != nil {
			out = append(out, e.obj)
		}
	}
	if cur != nil {
		out = append(out, cur)
	}
	return out
}

// LogRead records a read that was served (get: After is the object returned,
// nil for NotFound; list: Count is the number of items).
func (s *Store) LogRead(c Caller, verb string, gvk schema.GroupVersionKind, ns, name string, obj map[string]any, items []map[string]any, err error) {
	e := &LogEntry{Seq: len(s.Log), Step: s.StepFn(), Actor: c.Actor, TaskID: c.TaskID, TaskLabel: c.TaskLabel, Verb: verb,
		Key: ObjKey{Group: gvk.Group, Kind: gvk.Kind, NS: ns, Name: name}, After: obj, Count: len(items), Items: items, Err: err, Read: true}
	s.Log = append(s.Log, e)
	for _, f := range s.OnLog {
		f(e)
	}
}
