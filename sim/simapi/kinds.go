// Package simapi is the simulated Kubernetes API server (DESIGN.md §3): a
// linearizable in-memory object store with real server-side apply, CRD-served
// custom resources (pruning, defaulting, validation), finalizers, owner
// reference validation, a garbage collector actor and lagging cache views.
package simapi

import (
	"crypto/sha256"
	"encoding/hex"
	"fmt"
	"strings"
	"sync"

	"k8s.io/apiextensions-apiserver/pkg/apis/apiextensions"
	extv1 "k8s.io/apiextensions-apiserver/pkg/apis/apiextensions/v1"
	structuralschema "k8s.io/apiextensions-apiserver/pkg/apiserver/schema"
	generatedopenapi "k8s.io/apiextensions-apiserver/pkg/generated/openapi"
	"k8s.io/apimachinery/pkg/apis/meta/v1/unstructured"
	"k8s.io/apimachinery/pkg/runtime"
	"k8s.io/apimachinery/pkg/runtime/schema"
	utiljson "k8s.io/apimachinery/pkg/util/json"
	"k8s.io/apimachinery/pkg/util/managedfields"
	"k8s.io/kube-openapi/pkg/validation/spec"
	"k8s.io/kube-openapi/pkg/validation/strfmt"
	"k8s.io/kube-openapi/pkg/validation/validate"
	"sigs.k8s.io/structured-merge-diff/v4/fieldpath"
)

// VersionInfo is the compiled serving information of one CRD version.
type VersionInfo struct {
	Name       string
	Structural *structuralschema.Structural
	Validator  *validate.SchemaValidator
	FM         *managedfields.FieldManager
	FMStatus   *managedfields.FieldManager
}

// KindInfo describes one served kind.
type KindInfo struct {
	GK         schema.GroupKind
	Plural     string
	ListKind   string
	Namespaced bool
	HasStatus  bool
	CRDName    string // "" for built-in kinds
	Versions   map[string]*VersionInfo
	Storage    string
}

// Resource returns the group resource for errors.
func (k *KindInfo) Resource() schema.GroupResource {
	return schema.GroupResource{Group: k.GK.Group, Resource: k.Plural}
}

type unsConv struct{}

func (unsConv) Convert(in, out, context interface{}) error { return nil }
func (unsConv) ConvertToVersion(in runtime.Object, gv runtime.GroupVersioner) (runtime.Object, error) {
	return in, nil
}
func (unsConv) ConvertFieldLabel(gvk schema.GroupVersionKind, label, value string) (string, string, error) {
	return label, value, nil
}

type unsCreater struct{}

func (unsCreater) New(kind schema.GroupVersionKind) (runtime.Object, error) {
	u := &unstructured.Unstructured{}
	u.SetGroupVersionKind(kind)
	return u, nil
}

type unsDefaulter struct{}

func (unsDefaulter) Default(runtime.Object) {}

func defName(n string) string {
	n = strings.ReplaceAll(n, "k8s.io/apimachinery/pkg/apis/meta/v1.", "io.k8s.apimachinery.pkg.apis.meta.v1.")
	n = strings.ReplaceAll(n, "k8s.io/apimachinery/pkg/runtime.", "io.k8s.apimachinery.pkg.runtime.")
	return n
}

var (
	metaDefsOnce sync.Once
	metaDefs     map[string]*spec.Schema

	compiledMu sync.Mutex
	compiled   = map[string]*KindInfo{}
)

func metaSchemas() map[string]*spec.Schema {
	metaDefsOnce.Do(func() {
		metaDefs = map[string]*spec.Schema{}
		defs := generatedopenapi.GetOpenAPIDefinitions(func(path string) spec.Ref {
			return spec.MustCreateRef("#/components/schemas/" + defName(path))
		})
		for k, d := range defs {
			if !strings.HasPrefix(k, "k8s.io/apimachinery/pkg/apis/meta/v1.") && !strings.HasPrefix(k, "k8s.io/apimachinery/pkg/runtime.") {
				continue
			}
			sc := d.Schema
			metaDefs[defName(k)] = &sc
		}
	})
	return metaDefs
}

// CompileCRD builds (and caches per content) the serving information of a CRD.
// The result is immutable and shared between runs.
func CompileCRD(crd *extv1.CustomResourceDefinition) (*KindInfo, error) {
	b, err := utiljson.Marshal(crd.Spec)
	if err != nil {
		return nil, err
	}
	h := sha256.Sum256(append([]byte(crd.Name+"|"), b...))
	key := hex.EncodeToString(h[:])
	compiledMu.Lock()
	if ki, ok := compiled[key]; ok {
		compiledMu.Unlock()
		return ki, nil
	}
	compiledMu.Unlock()

	ki := &KindInfo{
		GK:         schema.GroupKind{Group: crd.Spec.Group, Kind: crd.Spec.Names.Kind},
		Plural:     crd.Spec.Names.Plural,
		ListKind:   crd.Spec.Names.ListKind,
		Namespaced: crd.Spec.Scope == extv1.NamespaceScoped,
		CRDName:    crd.Name,
		Versions:   map[string]*VersionInfo{},
	}
	if ki.ListKind == "" {
		ki.ListKind = ki.GK.Kind + "List"
	}
	for _, v := range crd.Spec.Versions {
		if !v.Served {
			continue
		}
		if v.Storage {
			ki.Storage = v.Name
		}
		if v.Subresources != nil && v.Subresources.Status != nil {
			ki.HasStatus = true
		}
		vi := &VersionInfo{Name: v.Name}
		gvk := ki.GK.WithVersion(v.Name)
		var sch *extv1.JSONSchemaProps
		if v.Schema != nil {
			sch = v.Schema.OpenAPIV3Schema
		}
		if sch == nil {
			sch = &extv1.JSONSchemaProps{Type: "object", XPreserveUnknownFields: ptrBool(true)}
		}
		internal := &apiextensions.JSONSchemaProps{}
		if err := extv1.Convert_v1_JSONSchemaProps_To_apiextensions_JSONSchemaProps(sch, internal, nil); err != nil {
			return nil, err
		}
		ss, err := structuralschema.NewStructural(internal)
		if err != nil {
			return nil, fmt.Errorf("CRD %s version %s: not structural: %w", crd.Name, v.Name, err)
		}
		vi.Structural = ss
		vi.Validator = validate.NewSchemaValidator(ss.ToKubeOpenAPI(), nil, "", strfmt.Default)

		crSchema := ss.ToKubeOpenAPI()
		schemas := map[string]*spec.Schema{}
		for k, d := range metaSchemas() {
			schemas[k] = d
		}
		if crSchema.Properties == nil {
			crSchema.Properties = map[string]spec.Schema{}
		}
		// the API server's OpenAPI builder adds the type meta fields to every CR schema
		if _, ok := crSchema.Properties["apiVersion"]; !ok {
			crSchema.Properties["apiVersion"] = *spec.StringProperty()
		}
		if _, ok := crSchema.Properties["kind"]; !ok {
			crSchema.Properties["kind"] = *spec.StringProperty()
		}
		crSchema.Properties["metadata"] = *spec.RefSchema("#/components/schemas/io.k8s.apimachinery.pkg.apis.meta.v1.ObjectMeta")
		crSchema.AddExtension("x-kubernetes-group-version-kind", []interface{}{map[string]interface{}{"group": gvk.Group, "version": gvk.Version, "kind": gvk.Kind}})
		schemas["cr."+gvk.Group+"."+gvk.Version+"."+gvk.Kind] = crSchema
		tc, err := managedfields.NewTypeConverter(schemas, false)
		if err != nil {
			return nil, err
		}
		av := fieldpath.APIVersion(gvk.GroupVersion().String())
		var resetMain, resetStatus map[fieldpath.APIVersion]*fieldpath.Set
		if ki.HasStatus {
			resetMain = map[fieldpath.APIVersion]*fieldpath.Set{av: fieldpath.NewSet(fieldpath.MakePathOrDie("status"))}
			resetStatus = map[fieldpath.APIVersion]*fieldpath.Set{av: fieldpath.NewSet(fieldpath.MakePathOrDie("spec"))}
		}
		vi.FM, err = managedfields.NewDefaultCRDFieldManager(tc, unsConv{}, unsDefaulter{}, unsCreater{}, gvk, gvk.GroupVersion(), "", resetMain)
		if err != nil {
			return nil, err
		}
		vi.FMStatus, err = managedfields.NewDefaultCRDFieldManager(tc, unsConv{}, unsDefaulter{}, unsCreater{}, gvk, gvk.GroupVersion(), "status", resetStatus)
		if err != nil {
			return nil, err
		}
		ki.Versions[v.Name] = vi
	}
	compiledMu.Lock()
	compiled[key] = ki
	compiledMu.Unlock()
	return ki, nil
}

func ptrBool(b bool) *bool { return &b }

// builtin kinds served without a CRD (typed in the client scheme).
func builtinKinds() []*KindInfo {
	mk := func(group, kind, plural string, ns, status bool, versions ...string) *KindInfo {
		k := &KindInfo{GK: schema.GroupKind{Group: group, Kind: kind}, Plural: plural, ListKind: kind + "List", Namespaced: ns, HasStatus: status, Versions: map[string]*VersionInfo{}}
		for _, v := range versions {
			k.Versions[v] = &VersionInfo{Name: v}
		}
		k.Storage = versions[0]
		return k
	}
	return []*KindInfo{
		mk("", "Secret", "secrets", true, false, "v1"),
		mk("", "ConfigMap", "configmaps", true, false, "v1"),
		mk("", "ServiceAccount", "serviceaccounts", true, false, "v1"),
		mk("", "Service", "services", true, true, "v1"),
		mk("", "Namespace", "namespaces", false, true, "v1"),
		mk("", "Event", "events", true, false, "v1"),
		mk("apps", "Deployment", "deployments", true, true, "v1"),
		mk("coordination.k8s.io", "Lease", "leases", true, false, "v1"),
		mk("rbac.authorization.k8s.io", "ClusterRole", "clusterroles", false, false, "v1"),
		mk("rbac.authorization.k8s.io", "ClusterRoleBinding", "clusterrolebindings", false, false, "v1"),
		mk("rbac.authorization.k8s.io", "Role", "roles", true, false, "v1"),
		mk("rbac.authorization.k8s.io", "RoleBinding", "rolebindings", true, false, "v1"),
		mk("apiextensions.k8s.io", "CustomResourceDefinition", "customresourcedefinitions", false, true, "v1"),
		mk("admissionregistration.k8s.io", "ValidatingWebhookConfiguration", "validatingwebhookconfigurations", false, false, "v1"),
		mk("admissionregistration.k8s.io", "MutatingWebhookConfiguration", "mutatingwebhookconfigurations", false, false, "v1"),
	}
}

// applyDefaults walks a structural schema and fills in missing defaults, as
// the API server's defaulting does for custom resources.
func applyDefaults(x interface{}, s *structuralschema.Structural) {
	if s == nil {
		return
	}
	switch x := x.(type) {
	case map[string]interface{}:
		for k, prop := range s.Properties {
			if prop.Default.Object == nil {
				continue
			}
			if _, found := x[k]; !found {
				x[k] = runtime.DeepCopyJSONValue(prop.Default.Object)
			}
		}
		for k := range x {
			if prop, found := s.Properties[k]; found {
				p := prop
				applyDefaults(x[k], &p)
			} else if s.AdditionalProperties != nil && s.AdditionalProperties.Structural != nil {
				if x[k] == nil && s.AdditionalProperties.Structural.Default.Object != nil {
					x[k] = runtime.DeepCopyJSONValue(s.AdditionalProperties.Structural.Default.Object)
				}
				applyDefaults(x[k], s.AdditionalProperties.Structural)
			}
		}
	case []interface{}:
		for i := range x {
			if x[i] == nil && s.Items != nil && s.Items.Default.Object != nil {
				x[i] = runtime.DeepCopyJSONValue(s.Items.Default.Object)
			}
			applyDefaults(x[i], s.Items)
		}
	}
}

// dropNulls removes null values of fields that are not nullable, as the API
// server does before defaulting ("null values for fields that either don't
// specify the nullable flag, or specify it as false, will be pruned").
func dropNulls(x interface{}, s *structuralschema.Structural) {
	if s == nil {
		return
	}
	switch x := x.(type) {
	case map[string]interface{}:
		for k, v := range x {
			var ps *structuralschema.Structural
			if prop, ok := s.Properties[k]; ok {
				p := prop
				ps = &p
			} else if s.AdditionalProperties != nil {
				ps = s.AdditionalProperties.Structural
			}
			if v == nil {
				if ps != nil && !ps.Nullable {
					delete(x, k)
				}
				continue
			}
			dropNulls(v, ps)
		}
	case []interface{}:
		for i := range x {
			dropNulls(x[i], s.Items)
		}
	}
}
