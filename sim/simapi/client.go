package simapi

import (
	"context"
	"fmt"
	"reflect"
	"strings"

	kerrors "k8s.io/apimachinery/pkg/api/errors"
	apimeta "k8s.io/apimachinery/pkg/api/meta"
	"k8s.io/apimachinery/pkg/apis/meta/v1/unstructured"
	"k8s.io/apimachinery/pkg/runtime"
	"k8s.io/apimachinery/pkg/runtime/schema"
	"k8s.io/apimachinery/pkg/types"
	utiljson "k8s.io/apimachinery/pkg/util/json"
	"sigs.k8s.io/controller-runtime/pkg/client"
	"sigs.k8s.io/controller-runtime/pkg/client/apiutil"

	"github.com/crossplane/crossplane/verifsim/sim"
)

// View is a process's informer cache position per group kind: reads served
// "stale" come from the store as it was at that log position.
type View struct {
	// Lag lists the group kinds whose cached reads may lag.
	Lag map[schema.GroupKind]bool
	pos map[schema.GroupKind]int
	// Manual: the cache shows the state at its position for every read and only
	// moves when CatchUp is called (the environment plays the informer); without
	// it a read lags only when the scheduler picks the Stale outcome for it.
	Manual bool
}

// CatchUp brings the view up to date (the informer has delivered everything).
func (v *View) CatchUp(now int) {
	for gk := range v.Lag {
		v.pos[gk] = now
	}
}

// Behind reports whether the view lags behind position now.
func (v *View) Behind(now int) bool {
	for gk := range v.Lag {
		if v.pos[gk] < now {
			return true
		}
	}
	return false
}

// NewView returns a cache view that may lag for the given kinds.
func NewView(gks ...schema.GroupKind) *View {
	v := &View{Lag: map[schema.GroupKind]bool{}, pos: map[schema.GroupKind]int{}}
	for _, gk := range gks {
		v.Lag[gk] = true
	}
	return v
}

// Client is a controller-runtime client over the simulated API server. Every
// call is a scheduler request (yield + fault point) when Sim is set.
type Client struct {
	Store  *Store
	Sim    *sim.Sim
	Proc   *sim.Proc
	Actor  string
	View   *View // non-nil: this is a cached client
	Faults bool  // offer fault outcomes
	idx    *Indexers
}

// Indexers holds field indexes (shared between the clients of a process).
type Indexers struct {
	fns map[string]client.IndexerFunc
}

// NewIndexers returns an empty index registry.
func NewIndexers() *Indexers { return &Indexers{fns: map[string]client.IndexerFunc{}} }

// IndexField implements client.FieldIndexer.
func (i *Indexers) IndexField(_ context.Context, obj client.Object, fieldName string, fn client.IndexerFunc) error {
	kind := obj.GetObjectKind().GroupVersionKind().Kind
	if kind == "" {
		// typed objects carry no type meta: use the Go type name, which is the kind
		t := reflect.TypeOf(obj)
		for t.Kind() == reflect.Ptr {
			t = t.Elem()
		}
		kind = t.Name()
	}
	i.fns[kind+"/"+fieldName] = fn
	return nil
}

// NewClient returns a client. A nil simulator gives a direct (harness) client.
func NewClient(st *Store, s *sim.Sim, p *sim.Proc, actor string) *Client {
	return &Client{Store: st, Sim: s, Proc: p, Actor: actor, Faults: s != nil, idx: NewIndexers()}
}

// WithIndexers sets the field index registry.
func (c *Client) WithIndexers(i *Indexers) *Client { c.idx = i; return c }

// Cached returns a copy of the client that reads through a cache view.
func (c *Client) Cached(v *View) *Client {
	cc := *c
	cc.View = v
	return &cc
}

var _ client.Client = &Client{}

var (
	readMenu     = []sim.Outcome{sim.ErrBefore, sim.CrashBefore}
	staleMenu    = []sim.Outcome{sim.ErrBefore, sim.CrashBefore, sim.Stale}
	writeMenu    = []sim.Outcome{sim.ErrBefore, sim.ErrAfter, sim.CrashBefore, sim.CrashAfter}
	writeRVMenu  = []sim.Outcome{sim.ErrBefore, sim.ErrAfter, sim.Conflict, sim.CrashBefore, sim.CrashAfter}
	ErrInjected  = "simapi: injected server error"
	ErrReplyLost = "simapi: injected timeout (request may have been applied)"
)

func (c *Client) caller(ctx context.Context) Caller {
	cl := Caller{Actor: c.Actor}
	if t := sim.TaskFrom(ctx); t != nil {
		cl.TaskID, cl.TaskLabel = t.ID, t.Label
	}
	return cl
}

// yield parks at the scheduler; returns the outcome.
func (c *Client) yield(ctx context.Context, verb string, gvk schema.GroupVersionKind, ns, name string, menu []sim.Outcome) (sim.Outcome, uint32, error) {
	if c.Sim == nil || sim.NoYield(ctx) {
		return sim.OK, 0, nil
	}
	if !c.Faults {
		menu = nil
	}
	o, aux := c.Sim.Yield(c.Proc, "api", fmt.Sprintf("%s %s %s/%s", verb, gvk.Kind, ns, name), menu, nil)
	if err := ctx.Err(); err != nil {
		return o, aux, err
	}
	if o == sim.ErrBefore || o == sim.Conflict {
		c.Store.LogInjected(c.caller(ctx), verb, gvk, ns, name, o.String())
	}
	return o, aux, nil
}

func injected(verb string) error {
	return kerrors.NewInternalError(fmt.Errorf("%s (%s)", ErrInjected, verb))
}

func replyLost(gvk schema.GroupVersionKind, verb string) error {
	return kerrors.NewTimeoutError(fmt.Sprintf("%s (%s %s)", ErrReplyLost, verb, gvk.Kind), 1)
}

// IsInjected reports whether err is (or wraps) an injected fault.
func IsInjected(err error) bool {
	return err != nil && (strings.Contains(err.Error(), ErrInjected) || strings.Contains(err.Error(), ErrReplyLost))
}

func (c *Client) gvkOf(o runtime.Object) (schema.GroupVersionKind, error) {
	return apiutil.GVKForObject(o, c.Store.Scheme)
}

// ToMap converts an object to its JSON map.
func ToMap(o runtime.Object) (map[string]any, error) {
	if u, ok := o.(*unstructured.Unstructured); ok {
		return runtime.DeepCopyJSON(u.Object), nil
	}
	if u, ok := o.(interface {
		GetUnstructured() *unstructured.Unstructured
	}); ok {
		return runtime.DeepCopyJSON(u.GetUnstructured().Object), nil
	}
	b, err := utiljson.Marshal(o)
	if err != nil {
		return nil, err
	}
	m := map[string]any{}
	if err := utiljson.Unmarshal(b, &m); err != nil {
		return nil, err
	}
	return m, nil
}

// FromMap fills an object from a JSON map.
func FromMap(m map[string]any, o runtime.Object) error {
	if u, ok := o.(*unstructured.Unstructured); ok {
		u.Object = runtime.DeepCopyJSON(m)
		return nil
	}
	if u, ok := o.(interface {
		GetUnstructured() *unstructured.Unstructured
	}); ok {
		u.GetUnstructured().Object = runtime.DeepCopyJSON(m)
		return nil
	}
	b, err := utiljson.Marshal(m)
	if err != nil {
		return err
	}
	v := reflect.ValueOf(o)
	if v.Kind() == reflect.Ptr && !v.IsNil() {
		v.Elem().Set(reflect.Zero(v.Elem().Type()))
	}
	return utiljson.Unmarshal(b, o)
}

func (c *Client) Scheme() *runtime.Scheme        { return c.Store.Scheme }
func (c *Client) RESTMapper() apimeta.RESTMapper { return &restMapper{c.Store} }
func (c *Client) GroupVersionKindFor(o runtime.Object) (schema.GroupVersionKind, error) {
	return c.gvkOf(o)
}
func (c *Client) IsObjectNamespaced(o runtime.Object) (bool, error) {
	gvk, err := c.gvkOf(o)
	if err != nil {
		return false, err
	}
	ki := c.Store.Kind(gvk.GroupKind())
	if ki == nil {
		return false, &apimeta.NoKindMatchError{GroupKind: gvk.GroupKind()}
	}
	return ki.Namespaced, nil
}
func (c *Client) Status() client.SubResourceWriter { return &statusWriter{c} }
func (c *Client) SubResource(sub string) client.SubResourceClient {
	if sub != "status" {
		panic("simapi: subresource " + sub + " not modelled")
	}
	return &statusClient{statusWriter{c}}
}

// readSeq decides from which log position a cached read is served.
func (c *Client) readSeq(gk schema.GroupKind, o sim.Outcome, aux uint32) int {
	if c.View == nil || !c.View.Lag[gk] {
		return -1
	}
	cur := c.Store.Seq()
	pos := c.View.pos[gk]
	if c.View.Manual {
		if pos < cur {
			return pos
		}
		return -1
	}
	if o == sim.Stale && pos < cur {
		pos += int(aux % uint32(cur-pos))
		c.View.pos[gk] = pos
		return pos
	}
	c.View.pos[gk] = cur
	return -1
}

func (c *Client) Get(ctx context.Context, k client.ObjectKey, o client.Object, _ ...client.GetOption) error {
	gvk, err := c.gvkOf(o)
	if err != nil {
		return err
	}
	menu := readMenu
	if c.View != nil && c.View.Lag[gvk.GroupKind()] {
		menu = staleMenu
	}
	out, aux, err := c.yield(ctx, "get", gvk, k.Namespace, k.Name, menu)
	if err != nil {
		return err
	}
	if out == sim.ErrBefore {
		return injected("get")
	}
	var m map[string]any
	if seq := c.readSeq(gvk.GroupKind(), out, aux); seq >= 0 {
		m, err = c.Store.GetAt(seq, gvk, k.Namespace, k.Name)
		if err != nil && c.Sim != nil {
			if _, e2 := c.Store.Get(gvk, k.Namespace, k.Name); e2 == nil {
				c.Sim.Probe("lagging-cache-misses-existing-object")
				c.Sim.Hot(ctx)
			}
		}
	} else {
		m, err = c.Store.Get(gvk, k.Namespace, k.Name)
	}
	if c.Sim != nil {
		c.Store.LogRead(c.caller(ctx), "get", gvk, k.Namespace, k.Name, m, nil, err)
	}
	if err != nil {
		return err
	}
	return FromMap(m, o)
}

func (c *Client) List(ctx context.Context, l client.ObjectList, opts ...client.ListOption) error {
	gvk, err := c.gvkOf(l)
	if err != nil {
		return err
	}
	gvk.Kind = strings.TrimSuffix(gvk.Kind, "List")
	lo := &client.ListOptions{}
	lo.ApplyOptions(opts)
	menu := readMenu
	if c.View != nil && c.View.Lag[gvk.GroupKind()] {
		menu = staleMenu
	}
	sel := ""
	if lo.LabelSelector != nil {
		sel = lo.LabelSelector.String()
	}
	out, aux, err := c.yield(ctx, "list", gvk, lo.Namespace, sel, menu)
	if err != nil {
		return err
	}
	if out == sim.ErrBefore {
		return injected("list")
	}
	ms, err := c.Store.ListAt(c.readSeq(gvk.GroupKind(), out, aux), gvk, lo.Namespace, lo.LabelSelector)
	if c.Sim != nil {
		c.Store.LogRead(c.caller(ctx), "list", gvk, lo.Namespace, sel, nil, ms, err)
	}
	if err != nil {
		return err
	}
	_, isUL := l.(*unstructured.UnstructuredList)
	items := make([]runtime.Object, 0, len(ms))
	for _, m := range ms {
		var obj client.Object
		if isUL {
			obj = &unstructured.Unstructured{Object: m}
		} else {
			ro, err := c.Store.Scheme.New(gvk)
			if err != nil {
				return err
			}
			if err := FromMap(m, ro); err != nil {
				return err
			}
			obj = ro.(client.Object)
		}
		if lo.FieldSelector != nil && !lo.FieldSelector.Empty() {
			match := true
			for _, req := range lo.FieldSelector.Requirements() {
				fn := c.idx.fns[gvk.Kind+"/"+req.Field]
				if fn == nil {
					return fmt.Errorf("simapi: no index %q registered for %s", req.Field, gvk.Kind)
				}
				found := false
				for _, v := range fn(obj) {
					if v == req.Value {
						found = true
					}
				}
				if !found {
					match = false
				}
			}
			if !match {
				continue
			}
		}
		items = append(items, obj)
	}
	if ul, ok := l.(*unstructured.UnstructuredList); ok {
		ul.Items = ul.Items[:0]
		for _, it := range items {
			ul.Items = append(ul.Items, *it.(*unstructured.Unstructured))
		}
		return nil
	}
	return apimeta.SetList(l, items)
}

func dry(d []string) bool { return len(d) > 0 }

func (c *Client) Create(ctx context.Context, o client.Object, opts ...client.CreateOption) error {
	gvk, err := c.gvkOf(o)
	if err != nil {
		return err
	}
	co := &client.CreateOptions{}
	co.ApplyOptions(opts)
	verb := "create"
	if dry(co.DryRun) {
		verb = "create(dry)"
	}
	out, _, err := c.yield(ctx, verb, gvk, o.GetNamespace(), o.GetName(), writeMenu)
	if err != nil {
		return err
	}
	if out == sim.ErrBefore {
		return injected(verb)
	}
	m, err := ToMap(o)
	if err != nil {
		return err
	}
	res, err := c.Store.Create(c.caller(ctx), gvk, m, WriteOpts{DryRun: dry(co.DryRun), Manager: co.FieldManager})
	if out == sim.CrashAfter {
		c.Sim.Exit()
	}
	if err != nil {
		return err
	}
	if out == sim.ErrAfter {
		return replyLost(gvk, verb)
	}
	return FromMap(res, o)
}

func (c *Client) Update(ctx context.Context, o client.Object, opts ...client.UpdateOption) error {
	uo := &client.UpdateOptions{}
	uo.ApplyOptions(opts)
	return c.update(ctx, o, false, dry(uo.DryRun), uo.FieldManager)
}

func (c *Client) update(ctx context.Context, o client.Object, status, dryRun bool, mgr string) error {
	gvk, err := c.gvkOf(o)
	if err != nil {
		return err
	}
	verb := "update"
	if status {
		verb = "update-status"
	}
	if dryRun {
		verb += "(dry)"
	}
	out, _, err := c.yield(ctx, verb, gvk, o.GetNamespace(), o.GetName(), writeRVMenu)
	if err != nil {
		return err
	}
	switch out {
	case sim.ErrBefore:
		return injected(verb)
	case sim.Conflict:
		return kerrors.NewConflict(schema.GroupResource{Group: gvk.Group, Resource: strings.ToLower(gvk.Kind)}, o.GetName(), fmt.Errorf("the object has been modified; please apply your changes to the latest version and try again (injected)"))
	}
	m, err := ToMap(o)
	if err != nil {
		return err
	}
	res, err := c.Store.Update(c.caller(ctx), gvk, m, status, WriteOpts{DryRun: dryRun, Manager: mgr})
	if out == sim.CrashAfter {
		c.Sim.Exit()
	}
	if err != nil {
		return err
	}
	if out == sim.ErrAfter {
		return replyLost(gvk, verb)
	}
	return FromMap(res, o)
}

func (c *Client) Delete(ctx context.Context, o client.Object, opts ...client.DeleteOption) error {
	gvk, err := c.gvkOf(o)
	if err != nil {
		return err
	}
	do := &client.DeleteOptions{}
	do.ApplyOptions(opts)
	out, _, err := c.yield(ctx, "delete", gvk, o.GetNamespace(), o.GetName(), writeMenu)
	if err != nil {
		return err
	}
	if out == sim.ErrBefore {
		return injected("delete")
	}
	wo := WriteOpts{DryRun: dry(do.DryRun), Propagation: do.PropagationPolicy}
	if do.Preconditions != nil {
		wo.PreconditionUID = do.Preconditions.UID
		wo.PreconditionRV = do.Preconditions.ResourceVersion
	}
	err = c.Store.Delete(c.caller(ctx), gvk, o.GetNamespace(), o.GetName(), wo)
	if out == sim.CrashAfter {
		c.Sim.Exit()
	}
	if err != nil {
		return err
	}
	if out == sim.ErrAfter {
		return replyLost(gvk, "delete")
	}
	if c.Sim != nil {
		c.Sim.Warm(ctx)
	}
	return nil
}

func (c *Client) DeleteAllOf(ctx context.Context, o client.Object, opts ...client.DeleteAllOfOption) error {
	gvk, err := c.gvkOf(o)
	if err != nil {
		return err
	}
	do := &client.DeleteAllOfOptions{}
	do.ApplyOptions(opts)
	out, _, err := c.yield(ctx, "deletecollection", gvk, do.Namespace, "", writeMenu)
	if err != nil {
		return err
	}
	if out == sim.ErrBefore {
		return injected("deletecollection")
	}
	ms, err := c.Store.List(gvk, do.Namespace, do.LabelSelector)
	if err != nil {
		return err
	}
	for _, m := range ms {
		u := &unstructured.Unstructured{Object: m}
		if derr := c.Store.Delete(c.caller(ctx), gvk, u.GetNamespace(), u.GetName(), WriteOpts{Propagation: do.PropagationPolicy}); derr != nil && !kerrors.IsNotFound(derr) {
			err = derr
		}
	}
	if out == sim.CrashAfter {
		c.Sim.Exit()
	}
	if err != nil {
		return err
	}
	if out == sim.ErrAfter {
		return replyLost(gvk, "deletecollection")
	}
	return nil
}

func (c *Client) Patch(ctx context.Context, o client.Object, p client.Patch, opts ...client.PatchOption) error {
	po := &client.PatchOptions{}
	po.ApplyOptions(opts)
	return c.patch(ctx, o, p, false, dry(po.DryRun), po.Force != nil && *po.Force, po.FieldManager)
}

func (c *Client) patch(ctx context.Context, o client.Object, p client.Patch, status, dryRun, force bool, mgr string) error {
	gvk, err := c.gvkOf(o)
	if err != nil {
		return err
	}
	verb := "patch"
	if p.Type() == types.ApplyPatchType {
		verb = "apply"
	}
	if status {
		verb += "-status"
	}
	if dryRun {
		verb += "(dry)"
	}
	data, err := p.Data(o)
	if err != nil {
		return err
	}
	menu := writeMenu
	if p.Type() != types.ApplyPatchType && strings.Contains(string(data), `"resourceVersion"`) {
		menu = writeRVMenu
	}
	out, _, err := c.yield(ctx, verb, gvk, o.GetNamespace(), o.GetName(), menu)
	if err != nil {
		return err
	}
	switch out {
	case sim.ErrBefore:
		return injected(verb)
	case sim.Conflict:
		return kerrors.NewConflict(schema.GroupResource{Group: gvk.Group, Resource: strings.ToLower(gvk.Kind)}, o.GetName(), fmt.Errorf("the object has been modified; please apply your changes to the latest version and try again (injected)"))
	}
	res, err := c.Store.Patch(c.caller(ctx), gvk, o.GetNamespace(), o.GetName(), p.Type(), data, status, WriteOpts{DryRun: dryRun, Force: force, Manager: mgr})
	if out == sim.CrashAfter {
		c.Sim.Exit()
	}
	if err != nil {
		return err
	}
	if out == sim.ErrAfter {
		return replyLost(gvk, verb)
	}
	return FromMap(res, o)
}

type statusWriter struct{ c *Client }

func (w *statusWriter) Create(context.Context, client.Object, client.Object, ...client.SubResourceCreateOption) error {
	panic("simapi: status create not modelled")
}

func (w *statusWriter) Update(ctx context.Context, o client.Object, opts ...client.SubResourceUpdateOption) error {
	uo := &client.SubResourceUpdateOptions{}
	uo.ApplyOptions(opts)
	return w.c.update(ctx, o, true, dry(uo.DryRun), uo.FieldManager)
}

func (w *statusWriter) Patch(ctx context.Context, o client.Object, p client.Patch, opts ...client.SubResourcePatchOption) error {
	spo := &client.SubResourcePatchOptions{}
	spo.ApplyOptions(opts)
	return w.c.patch(ctx, o, p, true, dry(spo.DryRun), spo.Force != nil && *spo.Force, spo.FieldManager)
}

type statusClient struct{ statusWriter }

func (s *statusClient) Get(context.Context, client.Object, client.Object, ...client.SubResourceGetOption) error {
	panic("simapi: status get not modelled")
}

// restMapper answers the few questions Crossplane code asks a RESTMapper.
type restMapper struct{ s *Store }

func (r *restMapper) KindFor(resource schema.GroupVersionResource) (schema.GroupVersionKind, error) {
	for _, k := range r.s.Kinds() {
		if k.GK.Group == resource.Group && k.Plural == resource.Resource {
			return k.GK.WithVersion(resource.Version), nil
		}
	}
	return schema.GroupVersionKind{}, &apimeta.NoResourceMatchError{PartialResource: resource}
}
func (r *restMapper) KindsFor(resource schema.GroupVersionResource) ([]schema.GroupVersionKind, error) {
	k, err := r.KindFor(resource)
	return []schema.GroupVersionKind{k}, err
}
func (r *restMapper) ResourceFor(input schema.GroupVersionResource) (schema.GroupVersionResource, error) {
	return input, nil
}
func (r *restMapper) ResourcesFor(input schema.GroupVersionResource) ([]schema.GroupVersionResource, error) {
	return []schema.GroupVersionResource{input}, nil
}
func (r *restMapper) RESTMapping(gk schema.GroupKind, versions ...string) (*apimeta.RESTMapping, error) {
	ki := r.s.Kind(gk)
	if ki == nil {
		return nil, &apimeta.NoKindMatchError{GroupKind: gk, SearchedVersions: versions}
	}
	v := ki.Storage
	if len(versions) > 0 && versions[0] != "" {
		v = versions[0]
		if ki.Versions[v] == nil {
			return nil, &apimeta.NoKindMatchError{GroupKind: gk, SearchedVersions: versions}
		}
	}
	sc := apimeta.RESTScopeRoot
	if ki.Namespaced {
		sc = apimeta.RESTScopeNamespace
	}
	return &apimeta.RESTMapping{Resource: schema.GroupVersionResource{Group: gk.Group, Version: v, Resource: ki.Plural}, GroupVersionKind: gk.WithVersion(v), Scope: sc}, nil
}
func (r *restMapper) RESTMappings(gk schema.GroupKind, versions ...string) ([]*apimeta.RESTMapping, error) {
	m, err := r.RESTMapping(gk, versions...)
	if err != nil {
		return nil, err
	}
	return []*apimeta.RESTMapping{m}, nil
}
func (r *restMapper) ResourceSingularizer(resource string) (string, error) { return resource, nil }
