// Package c04 checks property C04: every pipeline step sees exactly the state
// the function contract promises (DESIGN.md §7 C04). The recorded sequence of
// RunFunctionRequests of each XR reconcile is replayed against a reference
// interpreter of the contract written from run_function.proto: it shares no
// code with FunctionComposer.Compose or FetchingFunctionRunner.
package c04

import (
	"context"
	"encoding/base64"
	"encoding/json"
	"fmt"
	"sort"
	"strings"
	"testing"

	"google.golang.org/grpc/codes"
	"google.golang.org/grpc/status"
	"google.golang.org/protobuf/proto"
	"google.golang.org/protobuf/types/known/structpb"
	metav1 "k8s.io/apimachinery/pkg/apis/meta/v1"
	"k8s.io/apimachinery/pkg/apis/meta/v1/unstructured"
	"k8s.io/apimachinery/pkg/types"
	"sigs.k8s.io/controller-runtime/pkg/reconcile"

	fnv1 "github.com/crossplane/crossplane/apis/apiextensions/fn/proto/v1"
	pkgv1 "github.com/crossplane/crossplane/apis/pkg/v1"
	"github.com/crossplane/crossplane/internal/simsync"

	"github.com/crossplane/crossplane/verifsim/kit"
	"github.com/crossplane/crossplane/verifsim/runner"
	"github.com/crossplane/crossplane/verifsim/sim"
	"github.com/crossplane/crossplane/verifsim/simapi"
	"github.com/crossplane/crossplane/verifsim/simfn"
	"github.com/crossplane/crossplane/verifsim/xrworld"
)

type prop struct{}

func init() { runner.Register(prop{}) }

func (prop) ID() string { return "C04" }

func (prop) Describe() runner.Description {
	return runner.Description{
		World:       "W-xr: real XR reconciler with FunctionComposer, FetchingFunctionRunner, ExistingExtraResourcesFetcher and the real xfn.PackagedFunctionRunner + BetaFallBack client; scripted functions answer at the gRPC interceptor seam after a wire round trip",
		Real:        xrworld.RealComponents,
		Stub:        append(append([]string{}, xrworld.StubComponents...), "xfn.PackagedFunctionRunner's connsMx is a scheduler-visible lock (overlay rewrite of sync.RWMutex) so the connection garbage collector can interleave with RunFunction"),
		Assumptions: kit.APIAssumptions,
		Rule:        "one case = one seeded run (pipelines of 1-4 scripted steps over two functions: desired resources emitted/dropped/relabelled/renamed, context trail appended or rewritten, requirement programs by name/labels/link-chasing/never-stabilising, credentials from secrets, results and conditions; the cluster's extra resources, credential secrets, active function revisions and endpoints, v1/v1beta1 serving and function installation changed while reconciles run; connection GC interleaved; transport and API errors, crashes); non-trivial = at least one fault fired or two tasks interleaved; distinct = distinct trace hash",
		FaultKinds:  []string{"err-before", "err-after", "conflict", "crash-before", "crash-after", "fn:err-before (transport Unavailable)", "fn:unimplemented-v1 (fallback)", "scripted fatal result", "scripted never-stabilising requirements", "active-revision/endpoint flip", "function uninstalled"},
	}
}

type state struct {
	s    *sim.Sim
	w    *xrworld.W
	wl   *xrworld.Workload
	fn   *simfn.Transport
	beta map[string]bool
	revN map[string]int
	gone map[string]bool
	evAt map[int]int // task -> len(w.Events) at start
}

func (prop) Run(t *testing.T, s *sim.Sim, res *runner.Result) {
	st := &state{s: s, beta: map[string]bool{}, revN: map[string]int{}, gone: map[string]bool{}, evAt: map[int]int{}}
	xrworld.Run(s, res, xrworld.Hooks{
		Opts: func(tp *sim.Tape) xrworld.Opts {
			lag := tp.Next(2) == 1
			return xrworld.Opts{FnFaults: true, LagComposed: lag, LagManual: lag && tp.Next(2) == 1}
		},
		Params:   xrworld.DrawParams{ForcePipeline: true, Fatal: true, Requirements: true, Conditions: true, Contract: true},
		Faults:   []sim.Outcome{sim.ErrBefore, sim.ErrAfter, sim.Conflict, sim.CrashBefore, sim.CrashAfter, sim.Stale},
		MaxChaos: 200,
		Setup: func(w *xrworld.W, wl *xrworld.Workload) error {
			st.w, st.wl, st.fn = w, wl, w.Fn
			hook := kit.NewLockHook(s, func() *sim.Proc { return w.Core })
			simsync.Hook = hook
			ctx := context.Background()
			for _, f := range wl.Fns {
				st.revN[f] = 1
			}
			for i, n := range []string{"e0", "e1", "e2"} {
				u := extra(n, map[string]any{"grp": "x", "tier": []string{"a", "b", "a"}[i]})
				if i < 2 {
					_ = unstructured.SetNestedField(u.Object, fmt.Sprintf("e%d", i+1), "spec", "next")
				}
				if err := w.Direct.Create(ctx, u); err != nil {
					return err
				}
			}
			for i := 1; i <= 7; i++ {
				u := extra(fmt.Sprintf("page%d", i), map[string]any{"page": fmt.Sprint(i)})
				_ = unstructured.SetNestedField(u.Object, int64(i), "spec", "page")
				if err := w.Direct.Create(ctx, u); err != nil {
					return err
				}
			}
			for _, nn := range []string{"crossplane-system/creds-a", "crossplane-system/creds-b", "team-b/creds-a"} {
				ns, n := strings.SplitN(nn, "/", 2)[0], strings.SplitN(nn, "/", 2)[1]
				sec := &unstructured.Unstructured{Object: map[string]any{"apiVersion": "v1", "kind": "Secret",
					"metadata": map[string]any{"name": n, "namespace": ns},
					"data":     map[string]any{"token": base64.StdEncoding.EncodeToString([]byte(nn + "-0"))}}}
				if err := w.Direct.Create(ctx, sec); err != nil {
					return err
				}
			}
			w.OnFnTransport = func(tr *simfn.Transport) {
				st.fn = tr
				for k, v := range st.beta {
					tr.BetaOnly[k] = v
				}
			}
			w.OnStart = func(ctrl string, key types.NamespacedName, tk *sim.Task) { st.evAt[tk.ID] = len(w.Events) }
			w.OnXRDone = func(key types.NamespacedName, tk *sim.Task, startSeq int, r reconcile.Result, err error) {
				st.judge(key, tk, startSeq)
			}
			return nil
		},
		Env: func(w *xrworld.W, wl *xrworld.Workload) []sim.Action {
			tp := s.Tape
			acts := []sim.Action{
				{Key: "cluster: an extra resource is created, deleted, relabelled or relinked", Weight: 5, Run: func() { st.editExtra(tp) }},
				{Key: "cluster: a credentials secret changes", Weight: 2, Run: func() { st.editSecret(tp) }},
				{Key: "function: a new revision becomes active / the endpoint moves", Weight: 3, Run: func() { st.flipRevision(tp) }},
				{Key: "function: serves v1beta1 only / v1 again", Weight: 2, Run: func() { st.flipBeta(tp) }},
			}
			missing := false
			for _, g := range st.gone {
				missing = missing || g
			}
			if missing {
				acts = append(acts, sim.Action{Key: "function: installed again", Weight: 8, Run: func() { st.reinstall(tp, true) }})
			} else {
				acts = append(acts, sim.Action{Key: "function: uninstalled", Weight: 1, Run: func() { st.reinstall(tp, false) }})
			}
			if xs, cs := w.XRObjects(), w.ComposedObjects(); len(xs) > 1 && len(cs) > 0 {
				acts = append(acts, sim.Action{Key: "user: points an XR's resourceRefs at a composed resource of another XR", Weight: 1, Run: func() {
					x := xs[tp.Next(len(xs))].DeepCopy()
					c := cs[tp.Next(len(cs))]
					if c.OwnerUID == x.GetUID() || c.OwnerUID == "" {
						return
					}
					refs, _, _ := unstructured.NestedSlice(x.Object, "spec", "resourceRefs")
					refs = append(refs, map[string]any{"apiVersion": c.Obj.GetAPIVersion(), "kind": c.Obj.GetKind(), "name": c.Obj.GetName()})
					_ = unstructured.SetNestedSlice(x.Object, refs, "spec", "resourceRefs")
					if w.Direct.Update(context.Background(), x) == nil {
						s.Probe("xr-references-resource-of-another-xr")
					}
				}})
			}
			if cs := w.ComposedObjects(); len(cs) > 0 {
				// a composed resource is deleted while its provider's finalizer holds it
				// (it exists, terminating, until the provider lets it go)
				acts = append(acts, sim.Action{Key: "somebody deletes a composed resource that its provider's finalizer holds", Weight: 1, Run: func() {
					ctx := context.Background()
					c := cs[tp.Next(len(cs))]
					u := c.Obj.DeepCopy()
					if u.GetDeletionTimestamp() != nil {
						u.SetFinalizers(nil)
						if w.Direct.Update(ctx, u) == nil {
							s.Probe("terminating-composed-resource-let-go")
						}
						return
					}
					u.SetFinalizers([]string{"finalizer.provider.example.org"})
					if w.Direct.Update(ctx, u) == nil && w.Direct.Delete(ctx, u) == nil {
						s.Probe("composed-resource-terminating")
					}
				}})
			}
			if !w.Core.Dead {
				acts = append(acts, sim.Action{Key: "core: garbage collect function connections", Weight: 2, Run: func() {
					r := w.Runner
					s.Go(w.Core, "fn-conn-gc", func(ctx context.Context) {
						if n, _ := r.GarbageCollectConnectionsNow(ctx); n > 0 {
							s.Probe("function-connection-garbage-collected")
						}
					}, nil)
				}})
			}
			return acts
		},
		Final: func(w *xrworld.W, wl *xrworld.Workload, quiet bool) {
			if !quiet {
				s.Probe("no-quiescence")
			}
		},
	})
	simsync.Hook = nil
}

func extra(name string, labels map[string]any) *unstructured.Unstructured {
	return &unstructured.Unstructured{Object: map[string]any{"apiVersion": "things.example.org/v1", "kind": "Extra",
		"metadata": map[string]any{"name": name, "labels": labels}, "spec": map[string]any{}}}
}

// ---------------------------------------------------------------- environment

func (st *state) editExtra(tp *sim.Tape) {
	ctx := context.Background()
	n := fmt.Sprintf("e%d", tp.Next(4))
	cur := &unstructured.Unstructured{}
	cur.SetGroupVersionKind(xrworld.ExtraGVK)
	err := st.w.Direct.Get(ctx, types.NamespacedName{Name: n}, cur)
	switch tp.Next(4) {
	case 0:
		if err == nil {
			_ = st.w.Direct.Delete(ctx, cur)
		} else {
			_ = st.w.Direct.Create(ctx, extra(n, map[string]any{"grp": "x", "tier": []string{"a", "b"}[tp.Next(2)]}))
		}
	case 1:
		if err == nil {
			ls := map[string]string{"grp": []string{"x", "y"}[tp.Next(2)], "tier": []string{"a", "b"}[tp.Next(2)]}
			cur.SetLabels(ls)
			_ = st.w.Direct.Update(ctx, cur)
		}
	case 2:
		if err == nil {
			_ = unstructured.SetNestedField(cur.Object, fmt.Sprintf("e%d", tp.Next(4)), "spec", "next")
			_ = st.w.Direct.Update(ctx, cur)
		}
	case 3:
		if err == nil {
			_ = unstructured.SetNestedField(cur.Object, int64(tp.Next(100)), "spec", "size")
			_ = st.w.Direct.Update(ctx, cur)
		}
	}
}

func (st *state) editSecret(tp *sim.Tape) {
	ctx := context.Background()
	nn := []string{"crossplane-system/creds-a", "crossplane-system/creds-b", "team-b/creds-a"}[tp.Next(3)]
	ns, n := strings.SplitN(nn, "/", 2)[0], strings.SplitN(nn, "/", 2)[1]
	cur := &unstructured.Unstructured{}
	cur.SetGroupVersionKind(xrworld.SecretGVK)
	if err := st.w.Direct.Get(ctx, types.NamespacedName{Namespace: ns, Name: n}, cur); err != nil {
		return
	}
	_ = unstructured.SetNestedField(cur.Object, base64.StdEncoding.EncodeToString([]byte(fmt.Sprintf("%s-%d", nn, tp.Next(1000)))), "data", "token")
	if tp.Next(3) == 0 {
		_ = unstructured.SetNestedField(cur.Object, base64.StdEncoding.EncodeToString([]byte("extra")), "data", "more")
	}
	_ = st.w.Direct.Update(ctx, cur)
}

func (st *state) activeRevisions(fn string) []*pkgv1.FunctionRevision {
	l := &pkgv1.FunctionRevisionList{}
	_ = st.w.Direct.List(context.Background(), l)
	var out []*pkgv1.FunctionRevision
	for i := range l.Items {
		if l.Items[i].Labels[pkgv1.LabelParentPackage] == fn {
			out = append(out, &l.Items[i])
		}
	}
	return out
}

func (st *state) flipRevision(tp *sim.Tape) {
	ctx := context.Background()
	fn := st.wl.Fns[tp.Next(len(st.wl.Fns))]
	if st.gone[fn] {
		return
	}
	revs := st.activeRevisions(fn)
	if tp.Next(3) == 0 {
		// the endpoint of the active revision moves
		for _, r := range revs {
			if r.GetDesiredState() == pkgv1.PackageRevisionActive {
				r.Status.Endpoint = fmt.Sprintf("dns:///%s-moved%d.crossplane-system:9443", r.Name, tp.Next(1000))
				_ = st.w.Direct.Status().Update(ctx, r)
				st.s.Probe("endpoint-moved")
			}
		}
		return
	}
	for _, r := range revs {
		if r.GetDesiredState() == pkgv1.PackageRevisionActive {
			r.SetDesiredState(pkgv1.PackageRevisionInactive)
			_ = st.w.Direct.Update(ctx, r)
		}
	}
	st.revN[fn]++
	if tp.Next(3) == 0 {
		// the new active revision has no endpoint yet, the deactivated one still serves
		st.w.EndpointPending = true
		st.s.Probe("active-revision-without-endpoint-yet")
	}
	_ = st.w.AddFunctionRevision(fn, st.revN[fn], true)
	st.s.Probe("active-revision-changed")
}

func (st *state) flipBeta(tp *sim.Tape) {
	fn := st.wl.Fns[tp.Next(len(st.wl.Fns))]
	st.beta[fn] = !st.beta[fn]
	st.fn.BetaOnly[fn] = st.beta[fn]
}

func (st *state) reinstall(tp *sim.Tape, install bool) {
	ctx := context.Background()
	fn := st.wl.Fns[tp.Next(len(st.wl.Fns))]
	if install {
		for _, f := range st.wl.Fns {
			if st.gone[f] {
				fn = f
			}
		}
	}
	if !st.gone[fn] {
		if install {
			return
		}
		for _, r := range st.activeRevisions(fn) {
			_ = st.w.Direct.Delete(ctx, r)
		}
		_ = st.w.Direct.Delete(ctx, &pkgv1.Function{ObjectMeta: metaName(fn)})
		st.gone[fn] = true
		st.s.Probe("function-uninstalled")
		return
	}
	st.revN[fn]++
	if st.w.Direct.Create(ctx, &pkgv1.Function{ObjectMeta: metaName(fn), Spec: pkgv1.FunctionSpec{PackageSpec: pkgv1.PackageSpec{Package: "xpkg.example.org/" + fn + ":v1"}}}) == nil {
		_ = st.w.AddFunctionRevision(fn, st.revN[fn], true)
		st.gone[fn] = false
		st.s.Probe("function-installed-again")
	}
}

func metaName(n string) metav1.ObjectMeta { return metav1.ObjectMeta{Name: n} }

// ---------------------------------------------------------------- oracle

// canon renders any JSON-like value canonically (numbers as JSON numbers).
func canon(v any) string {
	b, err := json.Marshal(v)
	if err != nil {
		return "!" + err.Error()
	}
	var x any
	_ = json.Unmarshal(b, &x)
	b, _ = json.Marshal(x)
	return string(b)
}

func structCanon(s *structpb.Struct) string {
	if s == nil {
		return "{}"
	}
	return canon(s.AsMap())
}

func stateOrEmpty(s *fnv1.State) *fnv1.State {
	if s == nil {
		return &fnv1.State{}
	}
	return s
}

func stateEq(a, b *fnv1.State) bool {
	a, b = stateOrEmpty(a), stateOrEmpty(b)
	if !resEq(a.GetComposite(), b.GetComposite()) || len(a.GetResources()) != len(b.GetResources()) {
		return false
	}
	for k, ra := range a.GetResources() {
		rb, ok := b.GetResources()[k]
		if !ok || !resEq(ra, rb) {
			return false
		}
	}
	return true
}

func resEq(a, b *fnv1.Resource) bool {
	if a == nil {
		a = &fnv1.Resource{}
	}
	if b == nil {
		b = &fnv1.Resource{}
	}
	if structCanon(a.GetResource()) != structCanon(b.GetResource()) || a.GetReady() != b.GetReady() || len(a.GetConnectionDetails()) != len(b.GetConnectionDetails()) {
		return false
	}
	for k, v := range a.GetConnectionDetails() {
		if w, ok := b.GetConnectionDetails()[k]; !ok || string(v) != string(w) {
			return false
		}
	}
	return true
}

func reqsEq(a, b *fnv1.Requirements) bool {
	if len(a.GetExtraResources()) != len(b.GetExtraResources()) {
		return false
	}
	for k, sa := range a.GetExtraResources() {
		sb, ok := b.GetExtraResources()[k]
		if !ok || !proto.Equal(sa, sb) {
			return false
		}
	}
	return true
}

func fatalIn(rsp *fnv1.RunFunctionResponse) string {
	for _, r := range rsp.GetResults() {
		if r.GetSeverity() == fnv1.Severity_SEVERITY_FATAL {
			return r.GetMessage()
		}
	}
	return ""
}

// logical is one function invocation as the contract sees it: a v1 attempt
// answered Unimplemented followed by the v1beta1 attempt counts once.
type logical struct {
	first, last *simfn.Call
}

type pstep struct {
	name, fn string
	input    string
	creds    []cred
}

type cred struct{ name, ns, secret string }

func (st *state) violate(tk *sim.Task, sig, format string, a ...any) {
	st.s.Violate("C04/"+sig, fmt.Sprintf("reconcile %s: ", tk.Label)+fmt.Sprintf(format, a...))
}

func (st *state) judge(key types.NamespacedName, tk *sim.Task, startSeq int) {
	w := st.w
	store := w.Store
	var mine []*simapi.LogEntry
	for _, e := range store.Log[startSeq:] {
		if e.TaskID == tk.ID {
			mine = append(mine, e)
		}
	}
	var raw []*simfn.Call
	for _, c := range st.fn.Calls {
		if c.TaskID == tk.ID {
			raw = append(raw, c)
		}
	}
	if len(raw) == 0 {
		return
	}
	// ---- v1 -> v1beta1 fallback: a lossless re-encoding of the same request
	var calls []logical
	for i := 0; i < len(raw); i++ {
		c := raw[i]
		if c.Err != nil && status.Code(c.Err) == codes.Unimplemented && !c.Beta {
			if i+1 < len(raw) {
				nx := raw[i+1]
				if !nx.Beta || nx.Function != c.Function || nx.Target != c.Target {
					st.violate(tk, "fallback-not-to-same-function", "after %s answered Unimplemented for v1 the next call went to %s %s (beta=%v)", c.Function, nx.Function, nx.Target, nx.Beta)
					return
				}
				if nx.Req != nil && c.Req != nil && !proto.Equal(nx.Req, c.Req) {
					st.violate(tk, "fallback-request-differs", "the v1beta1 request sent to %s differs from the v1 request it replaces", c.Function)
					return
				}
				st.s.Probe("v1beta1-fallback")
				calls = append(calls, logical{first: c, last: nx})
				i++
				continue
			}
			// the task ended (crash, cancel) between the two attempts
			calls = append(calls, logical{first: c, last: c})
			continue
		}
		if c.Beta {
			st.violate(tk, "v1beta1-without-v1-attempt", "%s was called over v1beta1 without a v1 attempt answered Unimplemented", c.Function)
			return
		}
		calls = append(calls, logical{first: c, last: c})
	}

	// ---- which revision does this reconcile compose from?
	xrKey := simapi.ObjKey{Group: xrworld.XRGVK.Group, Kind: xrworld.XRGVK.Kind, Name: key.Name}
	firstSeq := calls[0].first.LogSeq
	var xr map[string]any
	for _, e := range mine {
		if e.Seq >= firstSeq {
			break
		}
		if e.Key == xrKey && e.After != nil && e.Err == nil && e.Injected == "" && !e.DryRun {
			xr = e.After
		}
	}
	if xr == nil {
		st.s.Probe("judge-skipped/no-xr-read")
		return
	}
	xrUID := (&unstructured.Unstructured{Object: xr}).GetUID()
	revName, _, _ := unstructured.NestedString(xr, "spec", "compositionRevisionRef", "name")
	rev := store.StateAt(firstSeq, simapi.ObjKey{Group: xrworld.RevGVK.Group, Kind: xrworld.RevGVK.Kind, Name: revName})
	if rev == nil {
		st.s.Probe("judge-skipped/no-revision")
		return
	}
	var steps []pstep
	raws, _, _ := unstructured.NestedSlice(rev, "spec", "pipeline")
	for _, r := range raws {
		m, _ := r.(map[string]any)
		ps := pstep{name: fmt.Sprint(m["step"])}
		ps.fn, _, _ = unstructured.NestedString(m, "functionRef", "name")
		ps.input = "{}"
		if in, ok := m["input"]; ok && in != nil {
			ps.input = canon(in)
		}
		cs, _, _ := unstructured.NestedSlice(m, "credentials")
		for _, c := range cs {
			cm, _ := c.(map[string]any)
			if fmt.Sprint(cm["source"]) != "Secret" {
				continue
			}
			ns, _, _ := unstructured.NestedString(cm, "secretRef", "namespace")
			sn, _, _ := unstructured.NestedString(cm, "secretRef", "name")
			ps.creds = append(ps.creds, cred{name: fmt.Sprint(cm["name"]), ns: ns, secret: sn})
		}
		steps = append(steps, ps)
	}
	if len(steps) == 0 {
		st.s.Probe("judge-skipped/empty-pipeline")
		return
	}
	st.s.Probe("reconcile-judged")

	// ---- observed state: what this reconcile read before the first call
	obs := calls[0].first.Req.GetObserved()
	st.judgeObserved(tk, mine, firstSeq, xr, xrUID, obs)

	// ---- reference interpreter over the recorded calls
	desired := &fnv1.State{}
	fctx := &structpb.Struct{}
	i := 0
	complete := false // the whole pipeline ran and its last step settled
	var finals []*fnv1.RunFunctionResponse
	var finalSteps []string
	fatal := ""
	ended := "" // why no further call may follow
steps:
	for si, ps := range steps {
		var reqs *fnv1.Requirements
		var want map[string][]string // expected extra resources, one or more acceptable renderings per name
		curCtx := fctx
		for round := 0; ; round++ {
			if i >= len(calls) {
				break steps
			}
			lc := calls[i]
			i++
			c := lc.last
			if round > 16 {
				st.violate(tk, "unbounded-requirement-rounds", "step %s was called more than %d times", ps.name, round)
				return
			}
			where := fmt.Sprintf("step %s (round %d)", ps.name, round)
			if got := fmt.Sprint(c.Req.GetInput().AsMap()["step"]); got != ps.name || c.Function != ps.fn {
				st.violate(tk, "wrong-step-called", "expected %s of function %s, but the call carries the input of step %s and went to function %s", where, ps.fn, got, c.Function)
				return
			}
			st.judgeTarget(tk, mine, lc.first, ps, where)
			if !stateEq(c.Req.GetObserved(), obs) {
				st.violate(tk, "observed-state-differs-between-calls", "%s was sent an observed state that differs from the one the first call of this reconcile got", where)
				return
			}
			if !stateEq(c.Req.GetDesired(), desired) {
				st.violate(tk, "desired-state-not-threaded", "%s was not sent the desired state returned by the previous step (empty for the first): got resources %v, want %v", where, names(c.Req.GetDesired()), names(desired))
				return
			}
			if structCanon(c.Req.GetContext()) != structCanon(curCtx) {
				st.violate(tk, "context-not-threaded", "%s was sent context %s, want %s", where, structCanon(c.Req.GetContext()), structCanon(curCtx))
				return
			}
			if structCanon(c.Req.GetInput()) != ps.input {
				st.violate(tk, "wrong-input", "%s was sent input %s, want %s", where, structCanon(c.Req.GetInput()), ps.input)
				return
			}
			if !st.judgeCreds(tk, mine, lc.first, ps, where) {
				return
			}
			if !st.judgeExtras(tk, c, want, where) {
				return
			}
			if c.Err != nil || c.Rsp == nil {
				ended = "a failed call"
				break steps
			}
			if f := fatalIn(c.Rsp); f != "" {
				finals = append(finals, c.Rsp)
				finalSteps = append(finalSteps, ps.name)
				fatal = f
				ended = "a fatal result"
				st.s.Probe("fatal-result")
				break steps
			}
			if reqsEq(c.Rsp.GetRequirements(), reqs) {
				// settled: this response is the step's output
				finals = append(finals, c.Rsp)
				finalSteps = append(finalSteps, ps.name)
				desired = stateOrEmpty(c.Rsp.GetDesired())
				fctx = c.Rsp.GetContext()
				if round > 0 {
					st.s.Probe(fmt.Sprintf("requirements-settled-after-rounds/%d", round))
				}
				if si == len(steps)-1 {
					complete = true
				}
				continue steps
			}
			// requirements changed: the next round gets exactly what matches them now
			reqs = c.Rsp.GetRequirements()
			curCtx = c.Rsp.GetContext()
			var nextSeq int
			if i < len(calls) {
				nextSeq = calls[i].first.LogSeq
			} else {
				nextSeq = store.Seq()
			}
			var ok bool
			want, ok = st.expectedExtras(mine, c.LogSeq, nextSeq, reqs)
			if !ok {
				ended = "a failed read of an extra resource"
				break steps
			}
		}
	}
	if i < len(calls) {
		c := calls[i].last
		why := ended
		if why == "" {
			why = "the end of the pipeline"
		}
		st.violate(tk, "call-after-pipeline-ended", "function %s was called (input of step %v) after %s", c.Function, c.Req.GetInput().AsMap()["step"], why)
		return
	}

	// ---- what the reconcile did with the outcome
	lastSeq := calls[len(calls)-1].last.LogSeq
	var applied []*simapi.LogEntry
	cleanTail := tk.Normal
	for _, fs := range tk.FaultSteps {
		if fs >= calls[len(calls)-1].last.Step {
			cleanTail = false // an injected fault hit the reconcile after the pipeline ran
		}
	}
	var statusWrite *simapi.LogEntry
	for _, e := range mine {
		if e.Seq < lastSeq || e.Read {
			if e.Seq >= lastSeq && (e.Injected != "" || (e.Err != nil && !isNotFound(e.Err))) {
				cleanTail = false
			}
			continue
		}
		if e.Injected != "" || e.Err != nil {
			cleanTail = false
			continue
		}
		if e.DryRun {
			continue
		}
		if composedKind(e.Key) && e.Verb == "apply" {
			applied = append(applied, e)
		}
		if e.Key == xrKey && e.Verb == "update-status" {
			statusWrite = e
		}
	}
	if !complete && len(applied) > 0 {
		st.violate(tk, "applied-from-incomplete-pipeline", "composed resources were applied although the pipeline did not run to the end (%d of %d steps settled)", len(finals), len(steps))
		return
	}
	synced := false
	if statusWrite != nil {
		cl, _, _ := unstructured.NestedSlice(statusWrite.After, "status", "conditions")
		for _, c := range cl {
			if m, _ := c.(map[string]any); m != nil && m["type"] == "Synced" && m["status"] == "True" {
				synced = true
			}
		}
	}
	if complete && cleanTail && statusWrite != nil && !synced {
		// the reconcile itself reports that it could not compose what the
		// pipeline asked for (a desired resource without a body, an apply the
		// API server rejects): nothing to compare
		st.s.Probe("pipeline-output-not-composable")
	}
	if complete && cleanTail && statusWrite != nil && synced {
		// the final desired state is the last step's output
		st.s.Probe("final-desired-judged")
		final := finals[len(finals)-1].GetDesired()
		got := map[string]*simapi.LogEntry{}
		for _, e := range applied {
			n := (&unstructured.Unstructured{Object: e.After}).GetAnnotations()["crossplane.io/composition-resource-name"]
			got[n] = e
		}
		for n, dr := range final.GetResources() {
			e, ok := got[n]
			if !ok {
				st.violate(tk, "final-desired-resource-not-applied", "the last step's output contains resource %q but it was not applied (applied: %v)", n, keys(got))
				return
			}
			dm := dr.GetResource().AsMap()
			dspec, _ := dm["spec"].(map[string]any)
			aspec, _ := e.After["spec"].(map[string]any)
			for f, v := range dspec {
				if canon(aspec[f]) != canon(v) {
					st.violate(tk, "applied-resource-differs-from-final-desired", "resource %q was applied with spec.%s=%s, the last step's output says %s", n, f, canon(aspec[f]), canon(v))
					return
				}
			}
			dl, _, _ := unstructured.NestedStringMap(dm, "metadata", "labels")
			al := (&unstructured.Unstructured{Object: e.After}).GetLabels()
			for k, v := range dl {
				if al[k] != v {
					st.violate(tk, "applied-resource-differs-from-final-desired", "resource %q was applied with label %s=%q, the last step's output says %q", n, k, al[k], v)
					return
				}
			}
		}
		for n := range got {
			if _, ok := final.GetResources()[n]; !ok {
				st.violate(tk, "applied-resource-not-in-final-desired", "resource %q was applied but the last step's output does not contain it (it contains %v)", n, names(final))
				return
			}
		}
		// desired XR status fields of the last output reach the XR
		if ds, ok := final.GetComposite().GetResource().AsMap()["status"].(map[string]any); ok {
			as, _ := statusWrite.After["status"].(map[string]any)
			for f, v := range ds {
				if canon(as[f]) != canon(v) {
					st.violate(tk, "xr-status-differs-from-final-desired", "the XR's status.%s is %s after the reconcile, the last step's output says %s", f, canon(as[f]), canon(v))
					return
				}
			}
		}
	}
	// ---- results and conditions: pipeline order, none dropped
	// (a reconcile that fails after the pipeline for another reason - a desired
	// resource that cannot be composed - reports that failure instead)
	if ((complete && synced) || fatal != "") && cleanTail && statusWrite != nil {
		st.judgeSurfaced(tk, key.Name, finals, finalSteps, fatal, statusWrite)
	}
}

func isNotFound(err error) bool { return err != nil && strings.Contains(err.Error(), "not found") }

func names(s *fnv1.State) []string {
	var out []string
	for n := range s.GetResources() {
		out = append(out, n)
	}
	sort.Strings(out)
	return out
}

func keys(m map[string]*simapi.LogEntry) []string {
	var out []string
	for n := range m {
		out = append(out, n)
	}
	sort.Strings(out)
	return out
}

func composedKind(k simapi.ObjKey) bool {
	for _, g := range xrworld.ComposedGVKs {
		if g.Group == k.Group && g.Kind == k.Kind {
			return true
		}
	}
	return false
}

// judgeObserved: the observed state is the XR and every existing composed
// resource of this XR, as this reconcile read them.
func (st *state) judgeObserved(tk *sim.Task, mine []*simapi.LogEntry, firstSeq int, xr map[string]any, xrUID types.UID, obs *fnv1.State) {
	oxr := obs.GetComposite().GetResource().AsMap()
	if n, _, _ := unstructured.NestedString(oxr, "metadata", "name"); n != (&unstructured.Unstructured{Object: xr}).GetName() {
		st.violate(tk, "observed-xr-is-another-object", "the observed composite is %q", n)
		return
	}
	ospec, _ := oxr["spec"].(map[string]any)
	xspec, _ := xr["spec"].(map[string]any)
	for _, f := range []string{"items", "drop", "readyNames", "size", "mode", "fatalStep", "xrReady"} {
		if canon(ospec[f]) != canon(xspec[f]) {
			st.violate(tk, "observed-xr-differs-from-xr-read", "the observed composite has spec.%s=%s but the XR this reconcile read has %s", f, canon(ospec[f]), canon(xspec[f]))
			return
		}
	}
	// reach: the cache missed an existing composed resource and the fallback read failed
	for i, e := range mine {
		if e.Seq >= firstSeq {
			break
		}
		if e.Read && e.Verb == "get" && composedKind(e.Key) && isNotFound(e.Err) && i+1 < len(mine) && mine[i+1].Key == e.Key && mine[i+1].Injected != "" {
			st.s.Probe("observer-fallback-read-failed-yet-pipeline-ran")
		}
	}
	// composed resources: the last successful get per object before the first call
	last := map[simapi.ObjKey]*simapi.LogEntry{}
	for _, e := range mine {
		if e.Seq >= firstSeq {
			break
		}
		if e.Read && e.Verb == "get" && composedKind(e.Key) && e.Injected == "" {
			if e.Err == nil && e.After != nil {
				last[e.Key] = e
			} else if isNotFound(e.Err) {
				delete(last, e.Key)
			}
		}
	}
	refs := map[string]bool{}
	rl, _, _ := unstructured.NestedSlice(xr, "spec", "resourceRefs")
	for _, r := range rl {
		m, _ := r.(map[string]any)
		refs[fmt.Sprintf("%v/%v", m["kind"], m["name"])] = true
	}
	want := map[string]map[string]any{}
	for k, e := range last {
		if !refs[k.Kind+"/"+k.Name] {
			continue
		}
		u := &unstructured.Unstructured{Object: e.After}
		ctrl := types.UID("")
		for _, o := range u.GetOwnerReferences() {
			if o.Controller != nil && *o.Controller {
				ctrl = o.UID
			}
		}
		if ctrl != "" && ctrl != xrUID {
			continue
		}
		n := u.GetAnnotations()["crossplane.io/composition-resource-name"]
		if n == "" {
			continue
		}
		want[n] = e.After
	}
	for n, m := range want {
		or, ok := obs.GetResources()[n]
		if !ok {
			st.violate(tk, "existing-composed-resource-not-observed", "composed resource %q of this XR exists (the reconcile read it) but is missing from the observed state (observed: %v)", n, names(obs))
			return
		}
		if structCanon(or.GetResource()) != canon(m) {
			st.violate(tk, "observed-resource-differs-from-object-read", "observed resource %q is not the object this reconcile read", n)
			return
		}
	}
	// completeness against the cluster itself: a composed resource that the XR
	// references and controls and that existed, unchanged in identity, from the
	// start of this reconcile until its first function call cannot be missing
	// (whatever the cache said and whichever read failed on the way)
	if len(mine) > 0 {
		for ref := range refs {
			parts := strings.SplitN(ref, "/", 2)
			k := simapi.ObjKey{Group: xrworld.ThingGVK.Group, Kind: parts[0], Name: parts[1]}
			if !composedKind(k) {
				continue
			}
			a, b := st.w.Store.StateAt(mine[0].Seq, k), st.w.Store.StateAt(firstSeq, k)
			if a == nil || b == nil {
				continue
			}
			ua, ub := &unstructured.Unstructured{Object: a}, &unstructured.Unstructured{Object: b}
			if ua.GetUID() != ub.GetUID() {
				continue
			}
			ctrl := types.UID("")
			for _, o := range ub.GetOwnerReferences() {
				if o.Controller != nil && *o.Controller {
					ctrl = o.UID
				}
			}
			n := ub.GetAnnotations()["crossplane.io/composition-resource-name"]
			if ctrl != xrUID || n == "" || ua.GetAnnotations()["crossplane.io/composition-resource-name"] != n {
				continue
			}
			if _, ok := obs.GetResources()[n]; !ok {
				st.violate(tk, "existing-composed-resource-not-observed", "composed resource %q (%s) is referenced and controlled by this XR and existed throughout the reconcile, but is missing from the observed state sent to the functions (observed: %v)", n, ref, names(obs))
				return
			}
			st.s.Probe("observed-resource-confirmed-in-store")
		}
	}
	for n := range obs.GetResources() {
		if _, ok := want[n]; !ok {
			st.violate(tk, "observed-resource-not-of-this-xr", "the observed state contains resource %q which is not an existing composed resource of this XR as the reconcile read it (expected %d resources)", n, len(want))
			return
		}
	}
	st.s.Probe(fmt.Sprintf("observed-resources/%d", len(want)))
}

// judgeTarget: the call goes to the endpoint of the active revision of the
// function the step names, as listed right before the call.
func (st *state) judgeTarget(tk *sim.Task, mine []*simapi.LogEntry, c *simfn.Call, ps pstep, where string) {
	var l *simapi.LogEntry
	for _, e := range mine {
		if e.Seq >= c.LogSeq {
			break
		}
		if e.Read && e.Verb == "list" && e.Key.Kind == "FunctionRevision" && e.Err == nil && e.Injected == "" {
			l = e
		}
	}
	if l == nil {
		st.violate(tk, "called-without-listing-revisions", "%s was called but the reconcile never listed the function's revisions", where)
		return
	}
	var eps []string
	for _, it := range l.Items {
		u := &unstructured.Unstructured{Object: it}
		if u.GetLabels()[pkgv1.LabelParentPackage] != ps.fn {
			continue
		}
		if s, _, _ := unstructured.NestedString(it, "spec", "desiredState"); s != "Active" {
			continue
		}
		ep, _, _ := unstructured.NestedString(it, "status", "endpoint")
		eps = append(eps, ep)
	}
	for _, ep := range eps {
		if ep == c.Target {
			return
		}
	}
	st.violate(tk, "sent-to-wrong-endpoint", "%s was sent to %s; the active revision(s) of %s listed before the call serve at %v", where, c.Target, ps.fn, eps)
}

// judgeCreds: the step's own credentials, with the data of the secrets as read.
func (st *state) judgeCreds(tk *sim.Task, mine []*simapi.LogEntry, c *simfn.Call, ps pstep, where string) bool {
	got := c.Req.GetCredentials()
	if len(got) != len(ps.creds) {
		st.violate(tk, "wrong-credentials", "%s was sent %d credentials, the step declares %d", where, len(got), len(ps.creds))
		return false
	}
	for _, cr := range ps.creds {
		g, ok := got[cr.name]
		if !ok {
			st.violate(tk, "wrong-credentials", "%s was not sent its credential %q", where, cr.name)
			return false
		}
		var sec map[string]any
		for _, e := range mine {
			if e.Seq >= c.LogSeq {
				break
			}
			if e.Read && e.Verb == "get" && e.Key.Kind == "Secret" && e.Key.Name == cr.secret && e.Key.NS == cr.ns && e.Err == nil && e.After != nil {
				sec = e.After
			}
		}
		if sec == nil {
			st.violate(tk, "wrong-credentials", "%s was sent credential %q although the reconcile never read secret %s/%s", where, cr.name, cr.ns, cr.secret)
			return false
		}
		data, _ := sec["data"].(map[string]any)
		gd := g.GetCredentialData().GetData()
		if len(gd) != len(data) {
			st.violate(tk, "wrong-credentials", "%s: credential %q has %d keys, the secret has %d", where, cr.name, len(gd), len(data))
			return false
		}
		for k, v := range data {
			b, _ := base64.StdEncoding.DecodeString(fmt.Sprint(v))
			if string(gd[k]) != string(b) {
				st.violate(tk, "wrong-credentials", "%s: credential %q key %s is %q, the secret read says %q", where, cr.name, k, gd[k], b)
				return false
			}
		}
	}
	st.s.Probe(fmt.Sprintf("credentials-checked/%d", len(ps.creds)))
	return true
}

// expectedExtras computes, from the reads this reconcile issued in the window
// between two calls, what each requirement may legitimately be answered with.
func (st *state) expectedExtras(mine []*simapi.LogEntry, from, to int, reqs *fnv1.Requirements) (map[string][]string, bool) {
	want := map[string][]string{}
	for name, sel := range reqs.GetExtraResources() {
		found := false
		for _, e := range mine {
			if e.Seq < from || e.Seq >= to || e.Key.Kind != sel.GetKind() {
				continue
			}
			if !e.Read {
				continue
			}
			switch m := sel.GetMatch().(type) {
			case *fnv1.ResourceSelector_MatchName:
				if e.Verb != "get" || e.Key.Name != m.MatchName {
					continue
				}
				if e.Injected != "" || (e.Err != nil && !isNotFound(e.Err)) {
					return nil, false
				}
				found = true
				if e.After == nil {
					want[name] = append(want[name], "[]")
				} else {
					want[name] = append(want[name], canon([]any{e.After}))
				}
			case *fnv1.ResourceSelector_MatchLabels:
				if e.Verb != "list" || e.Key.Name != labelString(m.MatchLabels.GetLabels()) {
					continue
				}
				if e.Injected != "" || e.Err != nil {
					return nil, false
				}
				found = true
				want[name] = append(want[name], itemsCanon(e.Items))
			}
		}
		if !found {
			// the read never happened (the task died or a read failed first)
			return nil, false
		}
	}
	return want, true
}

func labelString(ls map[string]string) string {
	var ks []string
	for k := range ls {
		ks = append(ks, k)
	}
	sort.Strings(ks)
	var out []string
	for _, k := range ks {
		out = append(out, k+"="+ls[k])
	}
	return strings.Join(out, ",")
}

func itemsCanon(items []map[string]any) string {
	var cs []string
	for _, it := range items {
		cs = append(cs, canon(it))
	}
	sort.Strings(cs)
	return "[" + strings.Join(cs, ",") + "]"
}

func (st *state) judgeExtras(tk *sim.Task, c *simfn.Call, want map[string][]string, where string) bool {
	got := c.Req.GetExtraResources()
	if len(got) != len(want) {
		st.violate(tk, "wrong-extra-resources", "%s was sent extra resources for %d requirement(s), the latest requirements name %d", where, len(got), len(want))
		return false
	}
	for name, alts := range want {
		g, ok := got[name]
		if !ok {
			st.violate(tk, "wrong-extra-resources", "%s was not sent extra resources for requirement %q", where, name)
			return false
		}
		var items []map[string]any
		for _, it := range g.GetItems() {
			items = append(items, it.GetResource().AsMap())
		}
		gc := itemsCanon(items)
		match := false
		for _, a := range alts {
			var x []any
			_ = json.Unmarshal([]byte(a), &x)
			var ms []map[string]any
			for _, y := range x {
				if m, ok := y.(map[string]any); ok {
					ms = append(ms, m)
				}
			}
			match = match || itemsCanon(ms) == gc
		}
		if !match {
			st.violate(tk, "wrong-extra-resources", "%s: requirement %q was answered with %s; the matching resources read for it were %v", where, name, short(gc), shortAll(alts))
			return false
		}
	}
	if len(want) > 0 {
		st.s.Probe("extra-resources-checked")
	}
	return true
}

func short(s string) string {
	if len(s) > 300 {
		return s[:300] + "..."
	}
	return s
}

func shortAll(ss []string) []string {
	var out []string
	for _, s := range ss {
		out = append(out, short(s))
	}
	return out
}

// judgeSurfaced: results become events in pipeline order, none dropped; the
// conditions of the steps reach the XR, later steps overriding earlier ones.
func (st *state) judgeSurfaced(tk *sim.Task, xrName string, finals []*fnv1.RunFunctionResponse, stepNames []string, fatal string, statusWrite *simapi.LogEntry) {
	var evs []xrworld.Event
	for _, e := range st.w.Events[st.evAt[tk.ID]:] {
		if e.TaskID == tk.ID && e.Name == xrName && e.Kind == xrworld.XRGVK.Kind {
			evs = append(evs, e)
		}
	}
	pos := 0
	expect := func(msg, typ, what string) bool {
		for pos < len(evs) {
			e := evs[pos]
			pos++
			if strings.Contains(e.Message, msg) && (typ == "" || e.Type == typ) {
				return true
			}
		}
		var got []string
		for _, e := range evs {
			got = append(got, e.Type+":"+e.Message)
		}
		st.violate(tk, "result-dropped-or-out-of-order", "%s is missing from the XR's events, or out of pipeline order (events of this reconcile: %q)", what, got)
		return false
	}
	type cond struct{ status, reason string }
	conds := map[string]cond{}
	for i, rsp := range finals {
		for _, c := range rsp.GetConditions() {
			s := "Unknown"
			switch c.GetStatus() {
			case fnv1.Status_STATUS_CONDITION_TRUE:
				s = "True"
			case fnv1.Status_STATUS_CONDITION_FALSE:
				s = "False"
			}
			conds[c.GetType()] = cond{s, c.GetReason()}
		}
		for _, r := range rsp.GetResults() {
			switch r.GetSeverity() {
			case fnv1.Severity_SEVERITY_FATAL:
				// reported by the reconciler itself, before the accumulated results
				seen := false
				for _, e := range evs {
					seen = seen || (e.Type == "Warning" && strings.Contains(e.Message, r.GetMessage()))
				}
				if !seen {
					st.violate(tk, "result-dropped-or-out-of-order", "the fatal result of step %s is missing from the XR's events", stepNames[i])
					return
				}
			case fnv1.Severity_SEVERITY_WARNING:
				if !expect(r.GetMessage(), "Warning", fmt.Sprintf("warning result %q of step %s", r.GetMessage(), stepNames[i])) {
					return
				}
			default:
				if !expect(r.GetMessage(), "Normal", fmt.Sprintf("result %q of step %s", r.GetMessage(), stepNames[i])) {
					return
				}
			}
			if r.GetSeverity() == fnv1.Severity_SEVERITY_FATAL {
				break
			}
		}
	}
	st.s.Probe("results-checked")
	stored := map[string]cond{}
	cl, _, _ := unstructured.NestedSlice(statusWrite.After, "status", "conditions")
	for _, c := range cl {
		m, _ := c.(map[string]any)
		stored[fmt.Sprint(m["type"])] = cond{fmt.Sprint(m["status"]), fmt.Sprint(m["reason"])}
	}
	for typ, want := range conds {
		if typ == "Ready" || typ == "Synced" || typ == "Healthy" {
			continue // system types are not the functions' to set (C05)
		}
		got, ok := stored[typ]
		if !ok {
			st.violate(tk, "condition-dropped", "condition %s set by the pipeline is missing from the XR", typ)
			return
		}
		if got != want {
			st.violate(tk, "condition-not-in-pipeline-order", "condition %s is %v on the XR; the last step that set it says %v", typ, got, want)
			return
		}
		st.s.Probe("condition-checked")
	}
}
