// Package c20 checks property C20: initialisation is idempotent and never
// duplicates or clobbers existing state (DESIGN.md §7 C20, world W-init).
package c20

import (
	"bytes"
	"context"
	"crypto/x509"
	"encoding/base64"
	"encoding/pem"
	"fmt"
	"os"
	"path/filepath"
	"sort"
	"strings"
	"sync"
	"testing"
	"time"

	"github.com/google/go-containerregistry/pkg/name"
	"github.com/spf13/afero"
	admv1 "k8s.io/api/admissionregistration/v1"
	corev1 "k8s.io/api/core/v1"
	metav1 "k8s.io/apimachinery/pkg/apis/meta/v1"
	"k8s.io/apimachinery/pkg/apis/meta/v1/unstructured"
	"k8s.io/apimachinery/pkg/runtime/schema"
	"k8s.io/apimachinery/pkg/types"
	"sigs.k8s.io/controller-runtime/pkg/client"

	"github.com/crossplane/crossplane-runtime/pkg/logging"

	pkgv1 "github.com/crossplane/crossplane/apis/pkg/v1"
	"github.com/crossplane/crossplane/internal/initializer"

	"github.com/crossplane/crossplane/verifsim/kit"
	"github.com/crossplane/crossplane/verifsim/runner"
	"github.com/crossplane/crossplane/verifsim/sim"
	"github.com/crossplane/crossplane/verifsim/simapi"
)

type prop struct{}

func init() { runner.Register(prop{}) }

func (prop) ID() string { return "C20" }

func (prop) Describe() runner.Description {
	return runner.Description{
		World: "W-init: every initializer step in the order cmd/crossplane/core/init.go builds them, on the simulated API server (which starts without any Crossplane kind)",
		Real: []string{"initializer.Initializer and all its steps: TLSCertificateGenerator (real RSA/x509 generation), CoreCRDs, WebhookConfigurations, CoreCRDsMigrator x6, LockObject, PackageInstaller, StoreConfigObject, DefaultDeploymentRuntimeConfig",
			"crossplane-runtime parser + APIPatchingApplicator", "cluster/crds/*.yaml and cluster/webhookconfigurations/*.yaml loaded into an in-memory afero filesystem"},
		Stub:        []string{"Kubernetes API server (simapi)", "the command-line wrapper (flags become a drawn configuration)"},
		Assumptions: append([]string{"crypto/rand is not controlled: certificate and key bytes never enter the trace; oracles verify chains and equality over time, not bytes"}, kit.APIAssumptions...),
		Rule:        "one case = one seeded run (initial cluster: empty, or a completed init damaged by deleting/stripping secrets, CRDs, webhook configurations; packages pre-installed under custom names with/without registry host; 1-3 init runs aborted by an injected API error or crash at a drawn call, then fault-free runs); non-trivial = at least one fault fired or the initial cluster was not empty; distinct = distinct trace hash",
		FaultKinds:  []string{"err-before", "err-after", "crash-before", "crash-after"},
	}
}

const ns = "crossplane-system"

var (
	fsOnce sync.Once
	baseFs afero.Fs
	fsErr  error
)

const convCRD = `apiVersion: apiextensions.k8s.io/v1
kind: CustomResourceDefinition
metadata:
  name: converted.test.crossplane.io
spec:
  group: test.crossplane.io
  names:
    kind: Converted
    listKind: ConvertedList
    plural: converted
    singular: converted
  scope: Cluster
  conversion:
    strategy: Webhook
    webhook:
      conversionReviewVersions: ["v1"]
      clientConfig:
        service:
          name: crossplane-webhooks
          namespace: crossplane-system
          path: /convert
  versions:
  - name: v1
    served: true
    storage: true
    schema:
      openAPIV3Schema:
        type: object
        x-kubernetes-preserve-unknown-fields: true
`

// withConversionCRD layers a core CRD that uses webhook conversion over the
// repo's CRD directory (the repo ships none in this version, which would leave
// the CA-bundle clause for CRDs unexercised).
func withConversionCRD(base afero.Fs) afero.Fs {
	layer := afero.NewMemMapFs()
	_ = afero.WriteFile(layer, "/crds/zz_converted.test.crossplane.io.yaml", []byte(convCRD), 0o644)
	return afero.NewCopyOnWriteFs(base, layer)
}

func crdFs() (afero.Fs, error) {
	fsOnce.Do(func() {
		baseFs = afero.NewMemMapFs()
		for _, d := range []struct{ src, dst string }{{"cluster/crds", "/crds"}, {"cluster/webhookconfigurations", "/webhookconfigurations"}} {
			files, err := filepath.Glob(filepath.Join(kit.RepoDir(), d.src, "*.yaml"))
			if err != nil || len(files) == 0 {
				fsErr = fmt.Errorf("no files under %s/%s", kit.RepoDir(), d.src)
				return
			}
			for _, f := range files {
				b, err := os.ReadFile(f)
				if err != nil {
					fsErr = err
					return
				}
				if err := afero.WriteFile(baseFs, filepath.Join(d.dst, filepath.Base(f)), b, 0o644); err != nil {
					fsErr = err
					return
				}
			}
		}
	})
	return afero.NewReadOnlyFs(baseFs), fsErr
}

type world struct {
	s      *sim.Sim
	res    *runner.Result
	st     *simapi.Store
	direct *simapi.Client
	proc   *sim.Proc
	fs     afero.Fs

	providers, configurations, functions []string
	webhooks                             bool

	// first complete content seen per secret: name -> key -> bytes
	complete map[string]map[string][]byte
	partial  map[string]map[string][]byte
	// digests of default objects that existed before init
	defaults map[simapi.ObjKey]string
	runs     int
}

var (
	secretGVK = schema.GroupVersionKind{Version: "v1", Kind: "Secret"}
	provGK    = schema.GroupKind{Group: "pkg.crossplane.io", Kind: "Provider"}
	confGK    = schema.GroupKind{Group: "pkg.crossplane.io", Kind: "Configuration"}
	funcGK    = schema.GroupKind{Group: "pkg.crossplane.io", Kind: "Function"}
)

var refPool = []string{
	"xpkg.upbound.io/crossplane-contrib/provider-nop:v0.2.0",
	"crossplane-contrib/provider-nop:v0.2.0",
	"xpkg.upbound.io/crossplane-contrib/provider-aws@sha256:" + strings.Repeat("ab", 32),
	"registry.example.org:5000/acme/provider-x:v1.0.0",
	"registry.example.org:5000/acme/provider-w:v1.0.0",
	"registry.example.org:5000/other/provider-v@sha256:" + strings.Repeat("cd", 32),
	"docker.io/acme/provider-y:v1.0.0",
	"index.docker.io/acme/provider-z:v2.0.0",
}

func (w *world) steps() []initializer.Step {
	s := w.st.Scheme
	log := logging.NewNopLogger()
	tlsOpts := []initializer.TLSCertificateGeneratorOption{
		initializer.TLSCertificateGeneratorWithClientSecretName("crossplane-tls-client", []string{"crossplane." + ns}),
		initializer.TLSCertificateGeneratorWithLogger(log),
	}
	if w.webhooks {
		tlsOpts = append(tlsOpts, initializer.TLSCertificateGeneratorWithServerSecretName("crossplane-tls-server", initializer.DNSNamesForService("crossplane-webhooks", ns)))
	}
	steps := []initializer.Step{initializer.NewTLSCertificateGenerator(ns, "crossplane-root-ca", tlsOpts...)}
	if w.webhooks {
		nn := types.NamespacedName{Name: "crossplane-tls-server", Namespace: ns}
		port := int32(9443)
		svc := admv1.ServiceReference{Name: "crossplane-webhooks", Namespace: ns, Port: &port}
		steps = append(steps,
			initializer.NewCoreCRDs("/crds", s, initializer.WithWebhookTLSSecretRef(nn), initializer.WithFs(w.fs)),
			initializer.NewWebhookConfigurations("/webhookconfigurations", s, nn, svc, initializer.WithWebhookConfigurationsFs(w.fs)))
	} else {
		steps = append(steps, initializer.NewCoreCRDs("/crds", s, initializer.WithFs(w.fs)))
	}
	steps = append(steps,
		initializer.NewCoreCRDsMigrator("compositionrevisions.apiextensions.crossplane.io", "v1alpha1"),
		initializer.NewCoreCRDsMigrator("environmentconfigs.apiextensions.crossplane.io", "v1beta1"),
		initializer.NewCoreCRDsMigrator("usages.apiextensions.crossplane.io", "v1beta1"),
		initializer.NewCoreCRDsMigrator("functions.pkg.crossplane.io", "v1beta1"),
		initializer.NewCoreCRDsMigrator("functionrevisions.pkg.crossplane.io", "v1beta1"),
		initializer.NewCoreCRDsMigrator("locks.pkg.crossplane.io", "v1alpha1"),
		initializer.NewLockObject(),
		initializer.NewPackageInstaller(w.providers, w.configurations, w.functions),
		initializer.NewStoreConfigObject(ns),
		initializer.StepFunc(initializer.DefaultDeploymentRuntimeConfig),
	)
	return steps
}

// runConcurrent runs two initialisations at the same time (two replicas
// starting together), interleaved by the scheduler.
func (w *world) runConcurrent(faults bool) {
	w.s.Probe("concurrent-init-runs")
	for i := 0; i < 2; i++ {
		w.runs++
		c := simapi.NewClient(w.st, w.s, w.proc, "init")
		c.Faults = faults
		w.s.Go(w.proc, fmt.Sprintf("init#%d", w.runs), func(ctx context.Context) {
			_ = initializer.New(c, logging.NewNopLogger(), w.steps()...).Init(ctx)
		}, nil)
		w.res.Counters["init-runs"]++
	}
	for i := 0; i < 8000; i++ {
		w.s.Wait()
		if w.s.LiveTasks() == 0 {
			break
		}
		if !w.s.StepOnce(nil, 1) {
			break
		}
		w.observe()
	}
	w.s.Wait()
	if w.proc.Dead {
		w.s.Restart(w.proc)
	}
}

// runInit runs one `crossplane core init` as a task; returns true if it completed without error.
func (w *world) runInit(faults bool) bool {
	w.runs++
	c := simapi.NewClient(w.st, w.s, w.proc, "init")
	c.Faults = faults
	ok := false
	w.s.Go(w.proc, fmt.Sprintf("init#%d", w.runs), func(ctx context.Context) {
		err := initializer.New(c, logging.NewNopLogger(), w.steps()...).Init(ctx)
		ok = err == nil
		if err != nil && !simapi.IsInjected(err) {
			w.s.Logf("  init error: %s", firstLine(err.Error()))
		}
	}, nil)
	for i := 0; i < 5000; i++ {
		w.s.Wait()
		if w.s.LiveTasks() == 0 {
			break
		}
		if !w.s.StepOnce(nil, 1) {
			break
		}
		w.observe()
	}
	w.s.Wait()
	if w.proc.Dead {
		w.s.Restart(w.proc)
	}
	w.res.Counters["init-runs"]++
	if ok {
		w.res.Counters["init-runs-completed"]++
	}
	return ok
}

func firstLine(s string) string {
	if len(s) > 160 {
		s = s[:160]
	}
	return strings.ReplaceAll(s, "\n", " ")
}

func (prop) Run(t *testing.T, s *sim.Sim, res *runner.Result) {
	w := &world{s: s, res: res, complete: map[string]map[string][]byte{}, defaults: map[simapi.ObjKey]string{}}
	w.st = simapi.NewStore(kit.Scheme())
	// certificate bytes are random (crypto/rand): object digests must not enter the trace
	w.st.StepFn = func() int { return s.Step }
	w.st.OnLog = append(w.st.OnLog, func(e *simapi.LogEntry) {
		if e.Read {
			return
		}
		st := "ok"
		if e.Injected != "" {
			st = "injected:" + e.Injected
		} else if e.Err != nil {
			st = "err"
		}
		s.Logf("  api %s %s %s %s changed=%v [%s]", e.Actor, e.Verb, e.Key, st, e.Changed, e.TaskLabel)
		w.judgeIssued(e)
	})
	kit.SeedNames(s)
	w.direct = simapi.NewClient(w.st, nil, nil, "user")
	w.proc = s.NewProc("init")
	var err error
	if w.fs, err = crdFs(); err != nil {
		res.Trouble = err.Error()
		return
	}
	tp := s.Tape
	w.webhooks = tp.Next(4) > 0
	if w.webhooks && tp.Next(2) == 0 {
		w.fs = withConversionCRD(w.fs)
		s.Probe("core-crd-with-webhook-conversion")
	}
	// requested packages
	pick := func() []string {
		var out []string
		n := tp.Next(3)
		for i := 0; i < n; i++ {
			r := refPool[tp.Next(len(refPool))]
			dup := false
			for _, o := range out {
				// object names derive from the repository path: two requests for
				// the same path on different hosts are not a meaningful input
				dup = dup || pathOf(o) == pathOf(r)
			}
			if !dup {
				out = append(out, r)
			}
		}
		return out
	}
	w.providers, w.configurations, w.functions = pick(), pick(), pick()
	initial := tp.Next(3) // 0 empty, 1 fully initialised, 2 damaged
	faultRuns := tp.Next(4)
	kit.DrawFaults(s, []sim.Outcome{sim.ErrBefore, sim.ErrAfter, sim.CrashBefore, sim.CrashAfter})
	res.Workload = map[string]any{"initial": []string{"empty", "initialised", "damaged"}[initial], "webhooks": w.webhooks, "providers": w.providers, "configurations": w.configurations, "functions": w.functions, "faulty_runs": faultRuns}

	// ---- build the initial cluster
	s.Phase = "setup"
	if initial > 0 {
		s.Faults["initial-cluster-not-empty"]++
		saveP, saveC, saveF := w.providers, w.configurations, w.functions
		w.providers, w.configurations, w.functions = nil, nil, nil
		if !w.runInit(false) {
			res.Trouble = "fault-free setup init did not complete"
			return
		}
		w.providers, w.configurations, w.functions = saveP, saveC, saveF
		w.preinstall(tp)
		if initial == 2 {
			w.damage(tp)
		}
		w.customDefaults(tp)
	}
	w.snapshotDefaults()
	w.complete = map[string]map[string][]byte{}
	w.partial = map[string]map[string][]byte{}
	w.observe()

	// ---- init runs that may be aborted
	s.Phase = "chaos"
	if tp.Next(3) == 0 {
		// two replicas start together
		w.runConcurrent(true)
		w.observe()
	}
	for i := 0; i < faultRuns && len(s.Violations) == 0; i++ {
		if tp.Next(4) == 0 {
			w.runConcurrent(true)
		} else {
			w.runInit(true)
		}
		w.observe()
	}
	// ---- fault-free runs
	s.Phase = "heal"
	ok := false
	for i := 0; i < 3 && !ok; i++ {
		ok = w.runInit(false)
		w.observe()
	}
	if !ok {
		// Init keeps a partially filled server TLS secret as it is and then cannot
		// read a certificate from it: such a cluster cannot be completed, which is
		// outside what we judge. Anything else must complete once faults stop.
		if m := w.st.Peek(simapi.ObjKey{Kind: "Secret", NS: ns, Name: "crossplane-tls-server"}); m != nil && w.webhooks {
			d := secretData(m)
			if len(d["tls.crt"]) == 0 && (len(d["tls.key"]) != 0 || len(d["ca.crt"]) != 0) {
				s.Probe("partially-filled-server-secret-blocks-init")
				s.Shutdown(w.proc)
				return
			}
		}
		s.Violate("C20/init-does-not-complete", "three fault-free initialisation runs in a row failed")
		s.Shutdown(w.proc)
		return
	}
	s.Phase = "probe"
	if len(s.Violations) == 0 {
		w.finalOracle()
		before := w.st.StateHash()
		if !w.runInit(false) {
			s.Violate("C20/second-run-fails", "initialisation completed once but failed when run again on the same cluster")
		} else if after := w.st.StateHash(); after != before {
			s.Violate("C20/not-idempotent", "running initialisation again on an initialised cluster changed objects: "+w.diffSince(before))
		}
		w.observe()
	}
	res.StateHashes = append(res.StateHashes, w.st.StateHash())
	s.Shutdown(w.proc)
}

func pathOf(ref string) string {
	r, err := name.ParseReference(ref, name.WithDefaultRegistry(""))
	if err != nil {
		return ref
	}
	return r.Context().RepositoryStr()
}

// repoOf is the source of a package reference as Crossplane identifies it: the
// reference as written with its tag or digest cut off (docker.io and
// index.docker.io are deliberately different sources).
func repoOf(ref string) string {
	if i := strings.Index(ref, "@"); i >= 0 {
		return ref[:i]
	}
	if i := strings.LastIndex(ref, ":"); i > strings.LastIndex(ref, "/") {
		return ref[:i]
	}
	return ref
}

// preinstall creates packages that are "already installed", some under custom
// names, for repositories that may be requested at init time (other tag).
func (w *world) preinstall(tp *sim.Tape) {
	ctx := context.Background()
	mk := func(kind string, img string, custom bool) {
		r, err := name.ParseReference(img, name.WithDefaultRegistry(""))
		if err != nil {
			return
		}
		old := repoOf(img) + ":v0.0.1"
		nm := "custom-" + strings.ToLower(kind)
		if !custom {
			nm = strings.NewReplacer("/", "-", ".", "-", ":", "-").Replace(r.Context().RepositoryStr())
		}
		var o client.Object
		switch kind {
		case "Provider":
			p := &pkgv1.Provider{ObjectMeta: metav1.ObjectMeta{Name: nm}}
			p.Spec.Package = old
			o = p
		case "Configuration":
			p := &pkgv1.Configuration{ObjectMeta: metav1.ObjectMeta{Name: nm}}
			p.Spec.Package = old
			o = p
		case "Function":
			p := &pkgv1.Function{ObjectMeta: metav1.ObjectMeta{Name: nm}}
			p.Spec.Package = old
			o = p
		}
		if err := w.direct.Create(ctx, o); err == nil {
			w.s.Probe("preinstalled-package")
			if custom {
				w.s.Probe("preinstalled-under-custom-name")
			}
		}
	}
	for _, img := range w.providers {
		if tp.Next(2) == 1 {
			mk("Provider", img, tp.Next(2) == 1)
		}
	}
	for _, img := range w.configurations {
		if tp.Next(2) == 1 {
			mk("Configuration", img, tp.Next(2) == 1)
		}
	}
	for _, img := range w.functions {
		if tp.Next(2) == 1 {
			mk("Function", img, tp.Next(2) == 1)
		}
	}
}

// damage deletes or strips parts of an initialised cluster.
func (w *world) damage(tp *sim.Tape) {
	ctx := context.Background()
	for _, n := range []string{"crossplane-root-ca", "crossplane-tls-server", "crossplane-tls-client"} {
		s := &corev1.Secret{}
		if err := w.direct.Get(ctx, types.NamespacedName{Namespace: ns, Name: n}, s); err != nil {
			continue
		}
		switch tp.Next(4) {
		case 0: // keep
		case 1:
			_ = w.direct.Delete(ctx, s)
		case 2: // emptied (as the Helm chart creates it)
			s.Data = nil
			_ = w.direct.Update(ctx, s)
		case 3: // one key lost
			keys := []string{"tls.crt", "tls.key", "ca.crt"}
			delete(s.Data, keys[tp.Next(3)])
			_ = w.direct.Update(ctx, s)
		}
	}
	for _, k := range w.st.KeysOf(schema.GroupKind{Group: "apiextensions.k8s.io", Kind: "CustomResourceDefinition"}) {
		// CRDs that have instances stay (locks, providers...); others may be missing
		if tp.Next(5) == 0 && !strings.HasPrefix(k.Name, "providers.") && !strings.HasPrefix(k.Name, "configurations.") && !strings.HasPrefix(k.Name, "functions.") &&
			!strings.HasPrefix(k.Name, "locks.") && !strings.HasPrefix(k.Name, "storeconfigs.") && !strings.HasPrefix(k.Name, "deploymentruntimeconfigs.") {
			u := &unstructured.Unstructured{}
			u.SetGroupVersionKind(schema.GroupVersionKind{Group: k.Group, Version: "v1", Kind: k.Kind})
			u.SetName(k.Name)
			_ = w.direct.Delete(ctx, u)
			w.st.CRDCleanupStep(k.Name)
		}
	}
	for _, k := range w.st.KeysOf(schema.GroupKind{Group: "admissionregistration.k8s.io", Kind: "ValidatingWebhookConfiguration"}) {
		if tp.Next(2) == 0 {
			u := &unstructured.Unstructured{}
			u.SetGroupVersionKind(schema.GroupVersionKind{Group: k.Group, Version: "v1", Kind: k.Kind})
			u.SetName(k.Name)
			_ = w.direct.Delete(ctx, u)
		}
	}
}

// customDefaults gives the default objects user content that init must not touch.
func (w *world) customDefaults(tp *sim.Tape) {
	ctx := context.Background()
	if tp.Next(2) == 1 {
		u := &unstructured.Unstructured{}
		u.SetGroupVersionKind(schema.GroupVersionKind{Group: "pkg.crossplane.io", Version: "v1beta1", Kind: "Lock"})
		if err := w.direct.Get(ctx, types.NamespacedName{Name: "lock"}, u); err == nil {
			_ = unstructured.SetNestedSlice(u.Object, []any{map[string]any{"name": "p-1", "type": "Provider", "source": "xpkg.example.org/a/b", "version": "v1.0.0", "dependencies": []any{}}}, "packages")
			_ = w.direct.Update(ctx, u)
		}
	}
	if tp.Next(2) == 1 {
		u := &unstructured.Unstructured{}
		u.SetGroupVersionKind(schema.GroupVersionKind{Group: "secrets.crossplane.io", Version: "v1alpha1", Kind: "StoreConfig"})
		if err := w.direct.Get(ctx, types.NamespacedName{Name: "default"}, u); err == nil {
			_ = unstructured.SetNestedField(u.Object, "my-own-namespace", "spec", "defaultScope")
			_ = w.direct.Update(ctx, u)
		}
	}
	if tp.Next(2) == 1 {
		u := &unstructured.Unstructured{}
		u.SetGroupVersionKind(schema.GroupVersionKind{Group: "pkg.crossplane.io", Version: "v1beta1", Kind: "DeploymentRuntimeConfig"})
		if err := w.direct.Get(ctx, types.NamespacedName{Name: "default"}, u); err == nil {
			_ = unstructured.SetNestedField(u.Object, "my-sa", "spec", "serviceAccountTemplate", "metadata", "name")
			_ = w.direct.Update(ctx, u)
		}
	}
}

func (w *world) defaultKeys() []simapi.ObjKey {
	return []simapi.ObjKey{
		{Group: "pkg.crossplane.io", Kind: "Lock", Name: "lock"},
		{Group: "secrets.crossplane.io", Kind: "StoreConfig", Name: "default"},
		{Group: "pkg.crossplane.io", Kind: "DeploymentRuntimeConfig", Name: "default"},
	}
}

func contentDigest(m map[string]any) string {
	c := map[string]any{}
	for k, v := range m {
		if k != "metadata" && k != "status" {
			c[k] = v
		}
	}
	return simapi.Digest(c)
}

func (w *world) snapshotDefaults() {
	for _, k := range w.defaultKeys() {
		if m := w.st.Peek(k); m != nil {
			w.defaults[k] = contentDigest(m)
		}
	}
}

func secretData(m map[string]any) map[string][]byte {
	out := map[string][]byte{}
	d, _, _ := unstructured.NestedMap(m, "data")
	for k, v := range d {
		if s, ok := v.(string); ok {
			b, _ := base64.StdEncoding.DecodeString(s)
			out[k] = b
		}
	}
	return out
}

// observe: complete certificates are never replaced; pre-existing defaults are untouched.
func (w *world) observe() {
	for _, n := range []string{"crossplane-root-ca", "crossplane-tls-server", "crossplane-tls-client"} {
		m := w.st.Peek(simapi.ObjKey{Kind: "Secret", NS: ns, Name: n})
		if m == nil {
			continue
		}
		d := secretData(m)
		need := []string{"tls.crt", "tls.key"}
		if n != "crossplane-root-ca" {
			need = append(need, "ca.crt")
		}
		full := true
		for _, k := range need {
			full = full && len(d[k]) > 0
		}
		old, seen := w.complete[n]
		if seen {
			for _, k := range need {
				if !bytes.Equal(old[k], d[k]) {
					w.s.Violate("C20/existing-certificate-replaced/"+n, fmt.Sprintf("secret %s held a complete certificate and key; its %s changed", n, k))
				}
			}
			continue
		}
		if old, ok := w.partial[n]; ok && full {
			// it has been completed: by keeping what it held?
			for _, k := range need {
				if len(old[k]) > 0 && !bytes.Equal(old[k], d[k]) {
					w.s.Violate("C20/existing-certificate-replaced/"+n+"/partially-filled", fmt.Sprintf("secret %s held %s (and not all of the other keys); it changed", n, k))
				}
			}
		}
		if full {
			w.complete[n] = d
		} else if n != "crossplane-root-ca" {
			// a server or client secret that holds some of the material is somebody's
			// to complete: what it holds is kept as it is
			any := false
			for _, k := range need {
				any = any || len(d[k]) > 0
			}
			if old, ok := w.partial[n]; ok {
				for _, k := range need {
					if len(old[k]) > 0 && !bytes.Equal(old[k], d[k]) {
						w.s.Violate("C20/existing-certificate-replaced/"+n+"/partially-filled", fmt.Sprintf("secret %s held %s (and not all of the other keys); it changed", n, k))
					}
				}
			} else if any {
				w.partial[n] = d
				w.s.Probe("partially-filled-tls-secret-watched")
			}
		}
	}
	for k, dg := range w.defaults {
		m := w.st.Peek(k)
		if m == nil {
			w.s.Violate("C20/default-object-deleted", fmt.Sprintf("pre-existing %s %s disappeared", k.Kind, k.Name))
			continue
		}
		if contentDigest(m) != dg {
			w.s.Violate("C20/default-object-modified/"+k.Kind, fmt.Sprintf("pre-existing %s %s was modified by initialisation", k.Kind, k.Name))
		}
	}
}

// judgeIssued: a certificate the initializer issues (a TLS secret's tls.crt goes
// from empty to filled) chains to the authority stored at that moment - the
// existing authority is kept and new certificates are signed by it, never by
// an authority that only exists in the memory of one run.
func (w *world) judgeIssued(e *simapi.LogEntry) {
	if e.Injected != "" || e.Err != nil || e.DryRun || e.Actor != "init" || e.Key.Kind != "Secret" || e.After == nil {
		return
	}
	if e.Key.Name != "crossplane-tls-server" && e.Key.Name != "crossplane-tls-client" {
		return
	}
	var before map[string][]byte
	if e.Before != nil {
		before = secretData(e.Before)
	}
	after := secretData(e.After)
	if len(after["tls.crt"]) == 0 || bytes.Equal(before["tls.crt"], after["tls.crt"]) {
		return
	}
	cam := w.st.Peek(simapi.ObjKey{Kind: "Secret", NS: ns, Name: "crossplane-root-ca"})
	if cam == nil {
		w.s.Violate("C20/certificate-issued-without-stored-ca", fmt.Sprintf("%s received a certificate while no CA secret exists", e.Key.Name))
		return
	}
	caCert, err := parseCert(secretData(cam)["tls.crt"])
	if err != nil {
		w.s.Violate("C20/certificate-issued-without-stored-ca", fmt.Sprintf("%s received a certificate while the CA secret holds no certificate", e.Key.Name))
		return
	}
	c, err := parseCert(after["tls.crt"])
	if err != nil {
		w.s.Violate("C20/bad-certificate/"+e.Key.Name, err.Error())
		return
	}
	roots := x509.NewCertPool()
	roots.AddCert(caCert)
	if _, err := c.Verify(x509.VerifyOptions{Roots: roots, KeyUsages: []x509.ExtKeyUsage{x509.ExtKeyUsageAny}, CurrentTime: time.Now()}); err != nil {
		w.s.Violate("C20/issued-certificate-does-not-chain-to-stored-ca/"+e.Key.Name, fmt.Sprintf("the certificate just issued into %s does not verify against the CA stored at that moment: %v", e.Key.Name, err))
		return
	}
	if !bytes.Equal(after["ca.crt"], secretData(cam)["tls.crt"]) {
		w.s.Violate("C20/issued-certificate-carries-another-ca/"+e.Key.Name, fmt.Sprintf("the ca.crt written into %s with a new certificate is not the stored CA", e.Key.Name))
		return
	}
	w.s.Probe("issued-certificate-verified")
}

func parseCert(b []byte) (*x509.Certificate, error) {
	blk, _ := pem.Decode(b)
	if blk == nil {
		return nil, fmt.Errorf("no PEM block")
	}
	return x509.ParseCertificate(blk.Bytes)
}

func (w *world) finalOracle() {
	get := func(n string) map[string][]byte {
		m := w.st.Peek(simapi.ObjKey{Kind: "Secret", NS: ns, Name: n})
		if m == nil {
			return nil
		}
		return secretData(m)
	}
	ca := get("crossplane-root-ca")
	if ca == nil || len(ca["tls.crt"]) == 0 {
		w.s.Violate("C20/no-ca", "initialisation completed without a CA certificate")
		return
	}
	caCert, err := parseCert(ca["tls.crt"])
	if err != nil {
		w.s.Violate("C20/bad-ca", "CA certificate does not parse: "+err.Error())
		return
	}
	roots := x509.NewCertPool()
	roots.AddCert(caCert)
	check := func(secret string, usage x509.ExtKeyUsage, dns []string) {
		d := get(secret)
		if d == nil {
			w.s.Violate("C20/missing-tls-secret/"+secret, "initialisation completed without secret "+secret)
			return
		}
		// only certificates issued against the CA currently stored are judged
		// (a pre-existing certificate is kept as it is)
		if !bytes.Equal(d["ca.crt"], ca["tls.crt"]) {
			w.s.Probe("kept-certificate-of-older-ca")
			return
		}
		if len(d["tls.crt"]) == 0 {
			// a partially filled secret is left as it is; there is no certificate to judge
			w.s.Probe("incomplete-tls-secret-left-as-is")
			return
		}
		c, err := parseCert(d["tls.crt"])
		if err != nil {
			w.s.Violate("C20/bad-certificate/"+secret, err.Error())
			return
		}
		if _, err := c.Verify(x509.VerifyOptions{Roots: roots, KeyUsages: []x509.ExtKeyUsage{usage}, CurrentTime: time.Now()}); err != nil {
			w.s.Violate("C20/certificate-does-not-chain/"+secret, fmt.Sprintf("certificate in %s does not verify against the stored CA: %v", secret, err))
		}
		for _, n := range dns {
			if err := c.VerifyHostname(n); err != nil {
				w.s.Violate("C20/certificate-misses-dns-name/"+secret, fmt.Sprintf("certificate in %s does not cover %s", secret, n))
			}
		}
		w.s.Probe("certificate-verified")
	}
	check("crossplane-tls-client", x509.ExtKeyUsageClientAuth, []string{"crossplane." + ns})
	if w.webhooks {
		check("crossplane-tls-server", x509.ExtKeyUsageServerAuth, initializer.DNSNamesForService("crossplane-webhooks", ns))
		bundle := base64.StdEncoding.EncodeToString(get("crossplane-tls-server")["tls.crt"])
		for _, k := range w.st.KeysOf(schema.GroupKind{Group: "apiextensions.k8s.io", Kind: "CustomResourceDefinition"}) {
			m := w.st.Peek(k)
			if strat, _, _ := unstructured.NestedString(m, "spec", "conversion", "strategy"); strat == "Webhook" {
				got, _, _ := unstructured.NestedString(m, "spec", "conversion", "webhook", "clientConfig", "caBundle")
				if got != bundle {
					w.s.Violate("C20/crd-stale-ca-bundle", fmt.Sprintf("CRD %s does not carry the current CA bundle", k.Name))
				}
				w.s.Probe("crd-ca-bundle-checked")
			}
		}
		nWh := 0
		for _, kind := range []string{"ValidatingWebhookConfiguration", "MutatingWebhookConfiguration"} {
			for _, k := range w.st.KeysOf(schema.GroupKind{Group: "admissionregistration.k8s.io", Kind: kind}) {
				whs, _, _ := unstructured.NestedSlice(w.st.Peek(k), "webhooks")
				for _, wh := range whs {
					nWh++
					got, _, _ := unstructured.NestedString(wh.(map[string]any), "clientConfig", "caBundle")
					if got != bundle {
						w.s.Violate("C20/webhook-stale-ca-bundle", fmt.Sprintf("%s %s does not carry the current CA bundle", kind, k.Name))
					}
				}
			}
		}
		if nWh == 0 {
			w.s.Violate("C20/no-webhook-configurations", "initialisation completed without any webhook configuration")
		}
	}
	// every core CRD exists
	files, _ := afero.Glob(w.fs, "/crds/*.yaml")
	if n := len(w.st.KeysOf(schema.GroupKind{Group: "apiextensions.k8s.io", Kind: "CustomResourceDefinition"})); n < len(files) {
		w.s.Violate("C20/core-crds-missing", fmt.Sprintf("%d CRD files, %d CRDs in the cluster", len(files), n))
	}
	// packages: one object per requested repository, updated in place
	for _, x := range []struct {
		gk   schema.GroupKind
		reqs []string
	}{{provGK, w.providers}, {confGK, w.configurations}, {funcGK, w.functions}} {
		for _, req := range x.reqs {
			if _, err := name.ParseReference(req, name.WithDefaultRegistry("")); err != nil {
				continue
			}
			var have []string
			uptodate := false
			for _, k := range w.st.KeysOf(x.gk) {
				src, _, _ := unstructured.NestedString(w.st.Peek(k), "spec", "package")
				if repoOf(src) == repoOf(req) {
					have = append(have, k.Name+"="+src)
					if src == req {
						uptodate = true
					}
				}
			}
			sort.Strings(have)
			switch {
			case len(have) == 0:
				w.s.Violate("C20/requested-package-missing", fmt.Sprintf("%s %s was requested but is not installed", x.gk.Kind, req))
			case len(have) > 1:
				w.s.Violate("C20/package-installed-twice", fmt.Sprintf("%s repository %s is installed %d times: %v", x.gk.Kind, repoOf(req), len(have), have))
			case !uptodate:
				w.s.Violate("C20/package-not-updated", fmt.Sprintf("%s %s was requested but the installed package is %v", x.gk.Kind, req, have))
			}
			w.s.Probe("package-request-checked")
		}
	}
}

// diffSince names objects that differ (best effort, for the report).
func (w *world) diffSince(string) string {
	var out []string
	n := len(w.st.Log)
	for i := n - 1; i >= 0 && len(out) < 5; i-- {
		e := w.st.Log[i]
		if e.TaskLabel != fmt.Sprintf("init#%d", w.runs) {
			break
		}
		if e.Changed {
			out = append(out, e.Verb+" "+e.Key.String())
		}
	}
	return strings.Join(out, "; ")
}
