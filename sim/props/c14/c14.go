// Package c14 checks property C14: a package has at most one active revision,
// numbered last; history GC spares it (DESIGN.md §7 C14).
package c14

import (
	"context"
	"fmt"
	"sort"
	"strings"
	"testing"
	"time"

	"github.com/google/go-containerregistry/pkg/name"
	corev1 "k8s.io/api/core/v1"
	metav1 "k8s.io/apimachinery/pkg/apis/meta/v1"
	"k8s.io/apimachinery/pkg/apis/meta/v1/unstructured"
	"k8s.io/apimachinery/pkg/runtime/schema"
	"k8s.io/apimachinery/pkg/types"
	"k8s.io/utils/ptr"
	"sigs.k8s.io/controller-runtime/pkg/reconcile"

	pkgv1 "github.com/crossplane/crossplane/apis/pkg/v1"
	"github.com/crossplane/crossplane/internal/controller/pkg/manager"
	"github.com/crossplane/crossplane/internal/xpkg"

	"github.com/crossplane/crossplane/verifsim/kit"
	"github.com/crossplane/crossplane/verifsim/runner"
	"github.com/crossplane/crossplane/verifsim/sim"
	"github.com/crossplane/crossplane/verifsim/simapi"
	"github.com/crossplane/crossplane/verifsim/simreg"
)

type prop struct{}

func init() { runner.Register(prop{}) }

func (prop) ID() string { return "C14" }

func (prop) Describe() runner.Description {
	return runner.Description{
		World:       "W-pkgmgr: real package manager reconciler + PackageRevisioner for Provider packages on the simulated API server and registry",
		Real:        []string{"manager.Reconciler (internal/controller/pkg/manager)", "manager.PackageRevisioner", "xpkg.FriendlyID / ImageConfigStore", "crossplane-runtime APIPatchingApplicator + MustBeControllableBy", "cluster/crds pkg.crossplane.io CRDs (defaults: history limit, activation and pull policy)"},
		Stub:        []string{"Kubernetes API server (simapi)", "OCI registry (simreg: tags that move, Head errors)", "package revision controller (a stub flips revision health)", "controller-runtime manager/workqueue"},
		Assumptions: kit.APIAssumptions,
		Rule:        "one case = one seeded run (1-2 packages; edits of source incl. rollbacks to earlier tags/digests, history limit 0-2, activation and pull policy; registry tags moving; reconciles faulted or crashed at any call, edits landing between reconciles); non-trivial = at least one fault fired or two tasks interleaved; distinct = distinct trace hash",
		FaultKinds:  []string{"err-before", "err-after", "conflict", "crash-before", "crash-after", "registry head error"},
	}
}

var (
	provGVK = schema.GroupVersionKind{Group: "pkg.crossplane.io", Version: "v1", Kind: "Provider"}
	revGVK  = schema.GroupVersionKind{Group: "pkg.crossplane.io", Version: "v1", Kind: "ProviderRevision"}
)

const repo = "xpkg.example.org/acme/prov"

type world struct {
	kit.World
	direct *simapi.Client
	proc   *sim.Proc
	reg    *simreg.Registry
	pkgs   []string
	tags   []string
	// digest (hex) -> revision name, learned from completed reconciles, per package
	nameOf     map[string]string
	starts     map[types.NamespacedName]int
	nDigest    int
	deletes    []gcDelete
	revDigest  map[string]string
	tagHistory map[string][]string
}

func (prop) Run(t *testing.T, s *sim.Sim, res *runner.Result) {
	w := &world{nameOf: map[string]string{}, starts: map[types.NamespacedName]int{}}
	w.S, w.Res = s, res
	w.Store = simapi.NewStore(kit.Scheme())
	if err := kit.ServeCore(w.Store); err != nil {
		res.Trouble = err.Error()
		return
	}
	kit.HookLog(s, w.Store)
	kit.SeedNames(s)
	w.direct = simapi.NewClient(w.Store, nil, nil, "user")
	w.proc = s.NewProc("pkg")
	w.reg = simreg.New(s, w.proc)
	tp := s.Tape
	// (v10: a tag that has another tag as a string prefix)
	w.tags = []string{"v1", "v2", "v3", "v10"}
	w.tagHistory = map[string][]string{}
	for _, tg := range w.tags {
		w.reg.TagMap[repo+":"+tg] = simreg.DigestFor(tg)
		w.tagHistory[repo+":"+tg] = []string{simreg.DigestFor(tg)}
	}
	w.nDigest = 4
	nPkg := 1 + tp.Next(2)
	chaos := 40 + tp.Next(200)
	kit.DrawFaults(s, []sim.Outcome{sim.ErrBefore, sim.ErrAfter, sim.Conflict, sim.CrashBefore, sim.CrashAfter})
	ctx := context.Background()
	for i := 0; i < nPkg; i++ {
		p := &pkgv1.Provider{ObjectMeta: metav1.ObjectMeta{Name: fmt.Sprintf("prov%d", i)}}
		p.Spec.Package = repo + ":" + w.tags[tp.Next(len(w.tags))]
		w.applyPolicy(p, tp)
		if err := w.direct.Create(ctx, p); err != nil {
			res.Trouble = "create provider: " + err.Error()
			return
		}
		w.pkgs = append(w.pkgs, p.Name)
	}
	recreate := tp.Next(3) == 0
	res.Workload = map[string]any{"packages": nPkg, "chaos_steps": chaos, "packages_recreated": recreate}
	w.newProcess()
	w.Store.OnLog = append(w.Store.OnLog, w.onLog)

	s.Phase = "chaos"
	for i := 0; i < chaos && len(s.Violations) == 0; i++ {
		acts := w.ReconcileActions()
		if w.proc.Dead {
			acts = append(acts, sim.Action{Key: "restart pkg", Weight: 40, Run: func() { s.Restart(w.proc); w.newProcess() }})
		}
		for _, n := range w.pkgs {
			n := n
			acts = append(acts, sim.Action{Key: "edit package " + n, Weight: 7, Run: func() { w.editPackage(n, tp) }})
			acts = append(acts, sim.Action{Key: "flip revision health " + n, Weight: 2, Run: func() { w.flipHealth(n, tp) }})
		}
		acts = append(acts, sim.Action{Key: "registry moves a tag", Weight: 2, Run: func() { w.moveTag(tp) }})
		acts = append(acts, sim.Action{Key: "advance 1s", Weight: 1, Run: func() { s.Advance(time.Second) }})
		if recreate {
			// a package is deleted and created again under its name (a new object, a
			// new UID) while the revisions of the previous one are still there; the
			// Kubernetes garbage collector removes them one by one, some time later
			for _, n := range w.pkgs {
				n := n
				acts = append(acts, sim.Action{Key: "user deletes package " + n + " and creates it again", Weight: 1, Run: func() { w.recreatePackage(n, tp) }})
			}
			for _, k := range w.Store.GCCandidates() {
				k := k
				acts = append(acts, sim.Action{Key: "k8s-gc " + k.String(), Weight: 2, Run: func() { w.Store.GCStep(k) }})
			}
		}
		if !s.StepOnce(acts, 30) {
			break
		}
		w.observe()
	}
	s.Phase = "heal"
	if w.proc.Dead {
		s.Restart(w.proc)
		w.newProcess()
	}
	quiet := w.Heal(10, w.observe)
	w.observe()
	if !quiet {
		res.Inconclusive = "no-quiescence"
	}
	res.StateHashes = append(res.StateHashes, w.Store.StateHash())
	s.Shutdown(w.proc)
}

func (w *world) applyPolicy(p *pkgv1.Provider, tp *sim.Tape) {
	switch tp.Next(4) {
	case 0:
		p.Spec.RevisionHistoryLimit = ptr.To(int64(0))
	case 1:
		p.Spec.RevisionHistoryLimit = ptr.To(int64(1))
	case 2:
		p.Spec.RevisionHistoryLimit = ptr.To(int64(2))
	case 3:
		p.Spec.RevisionHistoryLimit = nil
	}
	switch tp.Next(4) {
	case 0:
		m := pkgv1.ManualActivation
		p.Spec.RevisionActivationPolicy = &m
	default:
		a := pkgv1.AutomaticActivation
		p.Spec.RevisionActivationPolicy = &a
	}
	switch tp.Next(3) {
	case 0:
		pp := corev1.PullAlways
		p.Spec.PackagePullPolicy = &pp
	case 1:
		pp := corev1.PullIfNotPresent
		p.Spec.PackagePullPolicy = &pp
	case 2:
		p.Spec.PackagePullPolicy = nil
	}
}

func (w *world) newProcess() {
	c := simapi.NewClient(w.Store, w.S, w.proc, "package-manager")
	rec := manager.NewReconciler(kit.Mgr{C: c, S: w.Store.Scheme},
		manager.WithNewPackageFn(func() pkgv1.Package { return &pkgv1.Provider{} }),
		manager.WithNewPackageRevisionFn(func() pkgv1.PackageRevision { return &pkgv1.ProviderRevision{} }),
		manager.WithNewPackageRevisionListFn(func() pkgv1.PackageRevisionList { return &pkgv1.ProviderRevisionList{} }),
		manager.WithRevisioner(manager.NewPackageRevisioner(w.reg, manager.WithDefaultRegistry("xpkg.example.org"))),
		manager.WithConfigStore(xpkg.NewImageConfigStore(c, "crossplane-system")),
	)
	ctrl := &kit.Controller{Name: "packages", Proc: w.proc, Reconcile: rec.Reconcile, Keys: kit.KeysOfKind(w.Store, provGVK.GroupKind()), Weight: 30}
	ctrl.OnStart = func(k types.NamespacedName, t *sim.Task) { w.starts[k] = w.Store.Seq() }
	ctrl.OnDone = func(k types.NamespacedName, t *sim.Task, r reconcile.Result, err error) { w.judge(k, t, r, err) }
	w.Ctrls = []*kit.Controller{ctrl}
}

func (w *world) editPackage(name string, tp *sim.Tape) {
	ctx := context.Background()
	p := &pkgv1.Provider{}
	if err := w.direct.Get(ctx, types.NamespacedName{Name: name}, p); err != nil {
		return
	}
	switch tp.Next(4) {
	case 0, 1, 2:
		if tp.Next(4) == 0 {
			p.Spec.Package = repo + "@sha256:" + simreg.DigestFor(w.tags[tp.Next(len(w.tags))])
		} else {
			p.Spec.Package = repo + ":" + w.tags[tp.Next(len(w.tags))]
		}
	case 3:
		w.applyPolicy(p, tp)
	}
	_ = w.direct.Update(ctx, p)
}

func (w *world) recreatePackage(name string, tp *sim.Tape) {
	ctx := context.Background()
	p := &pkgv1.Provider{}
	if err := w.direct.Get(ctx, types.NamespacedName{Name: name}, p); err != nil {
		return
	}
	if err := w.direct.Delete(ctx, p); err != nil {
		return
	}
	n := &pkgv1.Provider{ObjectMeta: metav1.ObjectMeta{Name: name}}
	n.Spec.Package = repo + ":" + w.tags[tp.Next(len(w.tags))]
	w.applyPolicy(n, tp)
	if w.direct.Create(ctx, n) == nil {
		w.S.Probe("package-created-again-under-its-name")
	}
}

func (w *world) moveTag(tp *sim.Tape) {
	tg := w.tags[tp.Next(len(w.tags))]
	w.nDigest++
	if tp.Next(2) == 0 {
		// move to a brand new digest
		w.reg.TagMap[repo+":"+tg] = simreg.DigestFor(fmt.Sprintf("d%d", w.nDigest))
	} else {
		// move to the digest another tag has
		w.reg.TagMap[repo+":"+tg] = w.reg.TagMap[repo+":"+w.tags[tp.Next(len(w.tags))]]
	}
	w.tagHistory[repo+":"+tg] = append(w.tagHistory[repo+":"+tg], w.reg.TagMap[repo+":"+tg])
}

func (w *world) flipHealth(pkg string, tp *sim.Tape) {
	ctx := context.Background()
	revs := w.revisionsOf(pkg)
	if len(revs) == 0 {
		return
	}
	r := &pkgv1.ProviderRevision{}
	if err := w.direct.Get(ctx, types.NamespacedName{Name: revs[tp.Next(len(revs))].GetName()}, r); err != nil {
		return
	}
	if tp.Next(2) == 0 {
		r.SetConditions(pkgv1.Healthy())
	} else {
		r.SetConditions(pkgv1.Unhealthy())
	}
	_ = w.direct.Status().Update(ctx, r)
}

func (w *world) revisionsOfAt(seq int, pkg string) []*unstructured.Unstructured {
	var out []*unstructured.Unstructured
	for _, k := range w.Store.KeysOfEver(revGVK.GroupKind()) {
		var m map[string]any
		if seq < 0 {
			m = w.Store.Peek(k)
		} else {
			m = w.Store.StateAt(seq, k)
		}
		if m == nil {
			continue
		}
		u := &unstructured.Unstructured{Object: m}
		if u.GetLabels()[pkgv1.LabelParentPackage] == pkg {
			out = append(out, u)
		}
	}
	return out
}

func (w *world) revisionsOf(pkg string) []*unstructured.Unstructured { return w.revisionsOfAt(-1, pkg) }

func desiredState(u *unstructured.Unstructured) string {
	s, _, _ := unstructured.NestedString(u.Object, "spec", "desiredState")
	return s
}

func revNumber(u *unstructured.Unstructured) int64 {
	n, _, _ := unstructured.NestedInt64(u.Object, "spec", "revision")
	return n
}

// observe: never two Active revisions of one package.
func (w *world) observe() {
	for _, p := range w.pkgs {
		var active []string
		for _, r := range w.revisionsOf(p) {
			if desiredState(r) == string(pkgv1.PackageRevisionActive) {
				active = append(active, r.GetName())
			}
		}
		if len(active) > 1 {
			sort.Strings(active)
			w.S.Violate("C14/two-active-revisions", fmt.Sprintf("package %s has Active revisions %v at the same time", p, active))
		}
	}
}

// onLog judges every revision delete the manager commits.
func (w *world) onLog(e *simapi.LogEntry) {
	w.trackRevisionDigest(e)
	if e.Actor != "package-manager" || e.Key.Kind != revGVK.Kind || e.Verb != "delete" || e.Injected != "" || e.Err != nil || e.Before == nil {
		return
	}
	victim := &unstructured.Unstructured{Object: e.Before}
	pkg := victim.GetLabels()[pkgv1.LabelParentPackage]
	pm := w.Store.Peek(simapi.ObjKey{Group: provGVK.Group, Kind: provGVK.Kind, Name: pkg})
	if pm == nil {
		return
	}
	revs := w.revisionsOfAt(e.Seq, pkg) // state right before this delete took effect
	// ... or rather what this reconcile itself listed: the Kubernetes garbage
	// collector may have removed a revision of a previous incarnation of the
	// package since
	for i := e.Seq - 1; i >= 0; i-- {
		l := w.Store.Log[i]
		if l.TaskID == e.TaskID && l.Read && l.Verb == "list" && l.Key.Kind == revGVK.Kind && l.Err == nil && l.Injected == "" {
			revs = nil
			for _, it := range l.Items {
				u := &unstructured.Unstructured{Object: it}
				if u.GetLabels()[pkgv1.LabelParentPackage] == pkg {
					revs = append(revs, u)
				}
			}
			break
		}
	}
	// The reconcile acted on the package as it read it some time after it
	// started: the delete is justified if ANY version the package had since
	// then allows it (a user may have edited the limit in the meantime).
	start := 0
	for k, sq := range w.starts {
		if k.Name == pkg {
			start = sq
		}
	}
	justified := false
	var limits []int64
	for _, v := range w.Store.VersionsBetween(simapi.ObjKey{Group: provGVK.Group, Kind: provGVK.Kind, Name: pkg}, start, e.Seq) {
		limit, hasLimit, _ := unstructured.NestedInt64(v, "spec", "revisionHistoryLimit")
		if !hasLimit {
			continue
		}
		limits = append(limits, limit)
		if limit != 0 && int64(len(revs)) > limit+1 {
			justified = true
		}
	}
	if !justified {
		w.S.Violate("C14/gc-not-allowed-by-limit", fmt.Sprintf("manager deleted revision %s with %d revisions although the revisionHistoryLimit it could have read was %v", victim.GetName(), len(revs), limits))
	}
	w.S.Probe("manager-gc-delete")
	w.deletes = append(w.deletes, gcDelete{e: e, revs: revs, pkg: pkg})
}

// trackRevisionDigest: a revision stands for one image digest for its whole
// life; the manager must never point an existing revision at a source that
// resolves to another digest.
func (w *world) trackRevisionDigest(e *simapi.LogEntry) {
	if e.Read || e.Actor != "package-manager" || e.Key.Kind != revGVK.Kind || e.Injected != "" || e.Err != nil || e.After == nil || e.DryRun {
		return
	}
	pkg := (&unstructured.Unstructured{Object: e.After}).GetLabels()[pkgv1.LabelParentPackage]
	pm := w.Store.Peek(simapi.ObjKey{Group: provGVK.Group, Kind: provGVK.Kind, Name: pkg})
	if pm == nil {
		return
	}
	if pol, _, _ := unstructured.NestedString(pm, "spec", "packagePullPolicy"); pol == string(corev1.PullNever) {
		return
	}
	img, _, _ := unstructured.NestedString(e.After, "spec", "image")
	digest := ""
	for _, h := range w.reg.Heads {
		if h.TaskID == e.TaskID && h.Digest != "" {
			digest = h.Digest
		}
	}
	if digest == "" {
		if ref, err := name.ParseReference(img, name.WithDefaultRegistry("xpkg.example.org")); err == nil {
			if d, ok := ref.(name.Digest); ok {
				digest = strings.TrimPrefix(d.DigestStr(), "sha256:")
			} else {
				digest = w.reg.TagMap[ref.Name()]
			}
		}
	}
	if digest == "" {
		return
	}
	if w.revDigest == nil {
		w.revDigest = map[string]string{}
	}
	if e.Before == nil {
		// learn the digest a revision stands for only from a resolution made by
		// the reconcile that creates it
		for _, h := range w.reg.Heads {
			if h.TaskID == e.TaskID && h.Digest != "" {
				w.revDigest[e.Key.Name] = h.Digest
			}
		}
		return
	}
	old, _, _ := unstructured.NestedString(e.Before, "spec", "image")
	if old == img {
		return
	}
	headed := false
	for _, h := range w.reg.Heads {
		headed = headed || (h.TaskID == e.TaskID && h.Digest != "")
	}
	if !headed {
		// no resolution in this reconcile (pull policy IfNotPresent re-uses what it
		// resolved earlier): accept any digest the source has ever resolved to
		if ref, err := name.ParseReference(img, name.WithDefaultRegistry("xpkg.example.org")); err == nil {
			for _, d := range w.tagHistory[ref.Name()] {
				if d == w.revDigest[e.Key.Name] {
					return
				}
			}
		}
	}
	if want, ok := w.revDigest[e.Key.Name]; ok && want != digest {
		w.S.Violate("C14/revision-reused-for-other-digest", fmt.Sprintf("revision %s was created for image digest %s but the manager now gives it source %s, which resolves to %s", e.Key.Name, want[:12], img, digest[:12]))
	}
}

type gcDelete struct {
	e    *simapi.LogEntry
	revs []*unstructured.Unstructured
	pkg  string
}

// judgeDeletes decides, once the reconcile that issued them has ended, whether
// its revision deletes spared the current revision and took the oldest other one.
func (w *world) judgeDeletes(t *sim.Task) {
	var rest []gcDelete
	for _, d := range w.deletes {
		if d.e.TaskID != t.ID {
			rest = append(rest, d)
			continue
		}
		victim := &unstructured.Unstructured{Object: d.e.Before}
		// the current revision of that reconcile: the one for the digest the
		// registry served to it, else the revision it applied after the delete.
		cur := ""
		for _, h := range w.reg.Heads {
			if h.TaskID == t.ID && h.Digest != "" {
				cur = w.nameOf[d.pkg+"/"+h.Digest]
			}
		}
		if cur == "" {
			for _, e := range w.Store.Log[d.e.Seq+1:] {
				if e.TaskID == t.ID && e.Key.Kind == revGVK.Kind && e.Injected == "" && e.Err == nil && (e.Verb == "create" || e.Verb == "patch") {
					cur = e.Key.Name
				}
			}
		}
		if cur == "" {
			w.S.Probe("gc-delete-unjudged")
			continue
		}
		if victim.GetName() == cur {
			w.S.Violate("C14/gc-deleted-current-revision", fmt.Sprintf("manager deleted %s, the revision for the package's current source", cur))
			continue
		}
		for _, r := range d.revs {
			if r.GetName() == cur || r.GetName() == victim.GetName() {
				continue
			}
			if revNumber(r) < revNumber(victim) {
				w.S.Violate("C14/gc-not-oldest", fmt.Sprintf("manager deleted revision %s (number %d) although non-current revision %s (number %d) is older", victim.GetName(), revNumber(victim), r.GetName(), revNumber(r)))
			}
		}
		w.S.Probe("gc-delete-judged")
	}
	w.deletes = rest
}

// judge a finished package reconcile.
func (w *world) judge(k types.NamespacedName, t *sim.Task, r reconcile.Result, err error) {
	defer w.judgeDeletes(t)
	if !t.Normal || err != nil {
		return
	}
	start := w.starts[k]
	var status *simapi.LogEntry
	for _, e := range w.Store.Log[start:] {
		if e.TaskID != t.ID && e.Changed && (e.Key.Kind == provGVK.Kind || e.Key.Kind == revGVK.Kind) {
			return // disturbed by an edit or another actor: judged by the next reconcile
		}
		if e.TaskID == t.ID && e.Key.Kind == provGVK.Kind && e.Verb == "update-status" && e.Err == nil {
			status = e
		}
	}
	if status == nil || status.After == nil {
		return
	}
	pm := status.After
	cur, _, _ := unstructured.NestedString(pm, "status", "currentRevision")
	src, _, _ := unstructured.NestedString(pm, "spec", "package")
	if cur == "" {
		return // waiting for unpack / paused
	}
	if c := conditionStatus(pm, string(pkgv1.TypeInstalled)); c == "" {
		return
	}
	// the registry did not change under this reconcile either
	digest := ""
	for _, h := range w.reg.Heads {
		if h.TaskID == t.ID {
			digest = h.Digest
		}
	}
	if digest != "" {
		key := k.Name + "/" + digest
		if old, ok := w.nameOf[key]; ok && old != cur {
			w.S.Violate("C14/second-revision-for-digest", fmt.Sprintf("package %s: image digest %s was revision %s before and is %s now", k.Name, digest[:12], old, cur))
		}
		for kk, n := range w.nameOf {
			if n == cur && kk != key && len(kk) > len(k.Name) && kk[:len(k.Name)+1] == k.Name+"/" {
				w.S.Violate("C14/one-revision-for-two-digests", fmt.Sprintf("package %s: revision %s stands for two different image digests", k.Name, cur))
			}
		}
		w.nameOf[key] = cur
	}
	w.S.Probe("undisturbed-successful-package-reconcile")
	var curRev *unstructured.Unstructured
	revs := w.revisionsOf(k.Name)
	for _, rv := range revs {
		if rv.GetName() == cur {
			curRev = rv
		}
	}
	if curRev == nil {
		w.S.Violate("C14/current-revision-missing", fmt.Sprintf("package %s reconciled successfully but its current revision %s does not exist", k.Name, cur))
		return
	}
	if img, _, _ := unstructured.NestedString(curRev.Object, "spec", "image"); img != src {
		w.S.Violate("C14/current-revision-wrong-source", fmt.Sprintf("package %s has source %s but its current revision %s has image %s", k.Name, src, cur, img))
	}
	for _, rv := range revs {
		if rv.GetName() != cur && revNumber(rv) >= revNumber(curRev) {
			w.S.Violate("C14/current-revision-not-highest", fmt.Sprintf("package %s: current revision %s has number %d but %s has %d", k.Name, cur, revNumber(curRev), rv.GetName(), revNumber(rv)))
		}
	}
	pol, _, _ := unstructured.NestedString(pm, "spec", "revisionActivationPolicy")
	if pol != string(pkgv1.ManualActivation) && desiredState(curRev) != string(pkgv1.PackageRevisionActive) {
		w.S.Violate("C14/current-revision-not-active", fmt.Sprintf("package %s (activation %q): current revision %s is %s after a successful reconcile", k.Name, pol, cur, desiredState(curRev)))
	}
}

func conditionStatus(obj map[string]any, typ string) string {
	conds, _, _ := unstructured.NestedSlice(obj, "status", "conditions")
	for _, c := range conds {
		m, _ := c.(map[string]any)
		if m["type"] == typ {
			s, _ := m["status"].(string)
			return s
		}
	}
	return ""
}
