// Package c08 checks property C08: teardown happens in dependency order;
// nothing is orphaned with a dead controller (DESIGN.md §7 C08).
package c08

import (
	"context"
	"fmt"
	"strings"
	"testing"

	"k8s.io/apimachinery/pkg/apis/meta/v1/unstructured"
	"k8s.io/apimachinery/pkg/runtime/schema"
	"k8s.io/apimachinery/pkg/types"

	"github.com/crossplane/crossplane/verifsim/kit"
	"github.com/crossplane/crossplane/verifsim/pkgworld"
	"github.com/crossplane/crossplane/verifsim/props/c19"
	"github.com/crossplane/crossplane/verifsim/runner"
	"github.com/crossplane/crossplane/verifsim/sim"
	"github.com/crossplane/crossplane/verifsim/simapi"
	"github.com/crossplane/crossplane/verifsim/xrworld"
)

type prop struct{}

func init() { runner.Register(prop{}) }

func (prop) ID() string { return "C08" }

func (prop) Describe() runner.Description {
	return runner.Description{
		World:       "W-claim with the Kubernetes garbage collector and the API server's CRD cleanup as interleaved actors (claim / XR / XRD clauses); W-pkg for the revision/lock clause (see C16 world); W-usage for the composed-Usage clause (see C19 world)",
		Real:        xrworld.RealComponents,
		Stub:        xrworld.StubComponents,
		Assumptions: kit.APIAssumptions,
		Rule:        "one case = one seeded run (1-2 claims with Background/Foreground delete policy; user deletes of claim, XR and XRD at arbitrary steps; third-party finalizer removal; garbage collector and CRD cleanup steps; API errors and crashes at any call); non-trivial = at least one fault fired or two tasks interleaved; distinct = distinct trace hash",
		FaultKinds:  []string{"err-before", "err-after", "conflict", "crash-before", "crash-after", "third-party finalizer removal"},
	}
}

const (
	finClaim   = "finalizer.apiextensions.crossplane.io"
	finDefined = "defined.apiextensions.crossplane.io"
	finOffered = "offered.apiextensions.crossplane.io"
)

var crdGK = schema.GroupKind{Group: "apiextensions.k8s.io", Kind: "CustomResourceDefinition"}

type state struct {
	w          *xrworld.W
	claims     []*xrworld.ClaimSpec
	xrdDeleted bool
}

func hasFin(m map[string]any, f string) bool {
	if m == nil {
		return false
	}
	for _, x := range (&unstructured.Unstructured{Object: m}).GetFinalizers() {
		if x == f {
			return true
		}
	}
	return false
}

func (prop) Run(t *testing.T, s *sim.Sim, res *runner.Result) {
	// the statement has three parts that live in three worlds: claims/XRs/XRDs
	// (W-claim, below), package revisions and the dependency lock (W-pkg) and
	// composed Usages (usage world); only C08's own oracles speak in the
	// borrowed worlds
	switch s.Tape.Next(5) {
	case 0:
		s.OnlyPrefix = "C08/"
		res.Counters["world/pkg"]++
		pkgworld.RunC17(s, res)
		return
	case 1:
		s.OnlyPrefix = "C08/"
		res.Counters["world/usage"]++
		c19.RunWorld(s, res)
		return
	}
	res.Counters["world/claim"]++
	st := &state{}
	xrworld.Run(s, res, xrworld.Hooks{
		Opts: func(tp *sim.Tape) xrworld.Opts {
			return xrworld.Opts{Claims: true, SSAClaims: tp.Next(2) == 1}
		},
		NoXRs:    true,
		Params:   xrworld.DrawParams{ForcePipeline: true},
		Faults:   []sim.Outcome{sim.ErrBefore, sim.ErrAfter, sim.Conflict, sim.CrashBefore, sim.CrashAfter},
		MaxChaos: 260,
		Started: func(w *xrworld.W, wl *xrworld.Workload) {
			st.w = w
			st.claims = xrworld.DrawClaims(s.Tape, wl, xrworld.DrawParams{}, 2)
			for _, c := range st.claims {
				w.CreateClaim(c)
			}
			w.Store.OnLog = append(w.Store.OnLog, st.onLog)
			w.OnEngineStop = st.onStop
		},
		Env: func(w *xrworld.W, wl *xrworld.Workload) []sim.Action {
			var acts []sim.Action
			for _, c := range st.claims {
				c := c
				obj := w.Store.Peek(simapi.ObjKey{Group: xrworld.ClaimGVK.Group, Kind: xrworld.ClaimGVK.Kind, NS: c.NS, Name: c.Name})
				if obj == nil {
					if !st.xrdDeleted && w.Store.Kind(xrworld.ClaimGVK.GroupKind()) != nil {
						acts = append(acts, sim.Action{Key: "create claim " + c.Name, Weight: 3, Run: func() { w.CreateClaim(c) }})
					}
					continue
				}
				if (&unstructured.Unstructured{Object: obj}).GetDeletionTimestamp() == nil {
					acts = append(acts, sim.Action{Key: "delete claim " + c.Name, Weight: 4, Run: func() { w.DeleteClaim(c) }})
				} else {
					acts = append(acts, sim.Action{Key: "third party strips finalizers of claim " + c.Name, Weight: 1, Run: func() { st.strip(xrworld.ClaimGVK, c.NS, c.Name) }})
				}
			}
			for _, xr := range w.XRObjects() {
				n := xr.GetName()
				if xr.GetDeletionTimestamp() == nil {
					acts = append(acts, sim.Action{Key: "user deletes xr " + n, Weight: 1, Run: func() { st.del(xrworld.XRGVK, "", n) }})
				} else {
					acts = append(acts, sim.Action{Key: "third party strips finalizers of xr " + n, Weight: 1, Run: func() { st.strip(xrworld.XRGVK, "", n) }})
				}
			}
			if !st.xrdDeleted {
				acts = append(acts, sim.Action{Key: "user deletes the XRD", Weight: 2, Run: func() {
					st.del(xrworld.XRDGVK, "", xrworld.XRDName)
					st.xrdDeleted = true
					w.S.Probe("xrd-deleted")
				}})
			}
			for _, k := range w.Store.GCCandidates() {
				k := k
				acts = append(acts, sim.Action{Key: "k8s-gc " + k.String(), Weight: 8, Run: func() { w.Store.GCStep(k) }})
			}
			for _, n := range w.Store.CRDCleanupCandidates() {
				n := n
				acts = append(acts, sim.Action{Key: "crd-cleanup " + n, Weight: 8, Run: func() { w.Store.CRDCleanupStep(n) }})
			}
			return acts
		},
		Final: func(w *xrworld.W, wl *xrworld.Workload, quiet bool) {
			// bounded liveness is not part of the property (order is); count it
			if st.xrdDeleted && w.Store.Peek(simapi.ObjKey{Group: xrworld.XRDGVK.Group, Kind: xrworld.XRDGVK.Kind, Name: xrworld.XRDName}) == nil {
				w.S.Probe("xrd-fully-torn-down")
			}
		},
		HealRounds: 6,
	})
}

func (st *state) del(gvk schema.GroupVersionKind, ns, name string) {
	u := &unstructured.Unstructured{}
	u.SetGroupVersionKind(gvk)
	u.SetNamespace(ns)
	u.SetName(name)
	_ = st.w.Direct.Delete(context.Background(), u)
}

func (st *state) strip(gvk schema.GroupVersionKind, ns, name string) {
	ctx := context.Background()
	u := &unstructured.Unstructured{}
	u.SetGroupVersionKind(gvk)
	if err := st.w.Direct.Get(ctx, types.NamespacedName{Namespace: ns, Name: name}, u); err != nil {
		return
	}
	u.SetFinalizers(nil)
	if st.w.Direct.Update(ctx, u) == nil {
		st.w.S.Faults["third-party-finalizer-removal"]++
	}
}

func (st *state) instances(gk schema.GroupKind) int { return len(st.w.Store.KeysOf(gk)) }

func controlledBy(m map[string]any, uid types.UID) bool {
	if m == nil {
		return false
	}
	for _, o := range (&unstructured.Unstructured{Object: m}).GetOwnerReferences() {
		if o.Controller != nil && *o.Controller && o.UID == uid {
			return true
		}
	}
	return false
}

func (st *state) xrd() map[string]any {
	return st.w.Store.Peek(simapi.ObjKey{Group: xrworld.XRDGVK.Group, Kind: xrworld.XRDGVK.Kind, Name: xrworld.XRDName})
}

// onStop: while an XRD is being deleted and still owns its CRD, the controller
// serving the CRD's instances is stopped only after the instances are gone.
func (st *state) onStop(name string) {
	w := st.w
	xrd := st.xrd()
	if xrd == nil || (&unstructured.Unstructured{Object: xrd}).GetDeletionTimestamp() == nil {
		return
	}
	uid := (&unstructured.Unstructured{Object: xrd}).GetUID()
	gk, crdName := xrworld.XRGVK.GroupKind(), "xthings.example.org"
	if strings.HasPrefix(name, "claim/") {
		gk, crdName = xrworld.ClaimGVK.GroupKind(), "thingclaims.example.org"
	}
	crd := w.Store.Peek(simapi.ObjKey{Group: crdGK.Group, Kind: crdGK.Kind, Name: crdName})
	if crd == nil || !controlledBy(crd, uid) {
		return
	}
	if n := st.instances(gk); n > 0 {
		w.S.Violate("C08/controller-stopped-with-instances/"+strings.SplitN(name, "/", 2)[0], fmt.Sprintf("controller %s was stopped while %d %s instance(s) still exist", name, n, gk.Kind))
	}
	w.S.Probe("controller-stopped-during-xrd-teardown")
}

func (st *state) onLog(e *simapi.LogEntry) {
	w := st.w
	if e.Injected != "" || e.Read || e.DryRun || e.Err != nil || e.Actor != "core" {
		return
	}
	switch {
	case e.Key.Group == xrworld.ClaimGVK.Group && e.Key.Kind == xrworld.ClaimGVK.Kind:
		// (a) the claim finalizer goes only after the XR was deleted
		if !hasFin(e.Before, finClaim) || hasFin(e.After, finClaim) {
			return
		}
		xrName, _, _ := unstructured.NestedString(e.Before, "spec", "resourceRef", "name")
		if xrName == "" {
			return
		}
		xr := w.Store.Peek(simapi.ObjKey{Group: xrworld.XRGVK.Group, Kind: xrworld.XRGVK.Kind, Name: xrName})
		if xr == nil {
			w.S.Probe("claim-finalized-after-xr-gone")
			return
		}
		// only an XR bound to this claim is "its" XR
		cn, _, _ := unstructured.NestedString(xr, "spec", "claimRef", "name")
		cns, _, _ := unstructured.NestedString(xr, "spec", "claimRef", "namespace")
		if cn != e.Key.Name || cns != e.Key.NS {
			return
		}
		pol, _, _ := unstructured.NestedString(e.Before, "spec", "compositeDeletePolicy")
		xu := &unstructured.Unstructured{Object: xr}
		// "its XR" is the object this reconcile dealt with: if that one is gone and
		// an object of the same name was created since (an in-flight XR reconcile's
		// create-if-missing apply can resurrect a deleted XR), the successor is a
		// different object and not what this clause is about
		for i := len(w.Store.Log) - 1; i >= 0; i-- {
			l := w.Store.Log[i]
			if l.TaskID == e.TaskID && l.Read && l.Verb == "get" && l.Key.Kind == xrworld.XRGVK.Kind && l.Key.Name == xrName && l.Injected == "" {
				if l.After == nil || (&unstructured.Unstructured{Object: l.After}).GetUID() != xu.GetUID() {
					w.S.Probe("claim-finalized-after-xr-gone/same-name-successor-exists")
					return
				}
				break
			}
		}
		if xu.GetDeletionTimestamp() == nil {
			w.S.Violate("C08/claim-finalized-before-xr-deleted", fmt.Sprintf("claim %s/%s lost its finalizer while its XR %s exists and was never deleted", e.Key.NS, e.Key.Name, xrName))
		} else if pol == "Foreground" {
			w.S.Violate("C08/claim-finalized-before-xr-gone-foreground", fmt.Sprintf("claim %s/%s (Foreground) lost its finalizer while its XR %s is still terminating", e.Key.NS, e.Key.Name, xrName))
		} else {
			w.S.Probe("claim-finalized-after-xr-deleted")
		}
	case e.Key.Group == crdGK.Group && e.Key.Kind == crdGK.Kind && e.Verb == "delete":
		// (b) a CRD is deleted only after its instances are gone and its controller stopped
		var gk schema.GroupKind
		ctrl := ""
		switch e.Key.Name {
		case "xthings.example.org":
			gk, ctrl = xrworld.XRGVK.GroupKind(), "composite/"+xrworld.XRDName
		case "thingclaims.example.org":
			gk, ctrl = xrworld.ClaimGVK.GroupKind(), "claim/"+xrworld.XRDName
		default:
			return
		}
		if n := st.instances(gk); n > 0 {
			// when did the deleting reconcile last see the list of instances?
			listed := -1
			for i := len(w.Store.Log) - 1; i >= 0; i-- {
				if l := w.Store.Log[i]; l.TaskID == e.TaskID && l.Read && l.Verb == "list" && l.Key.Kind == gk.Kind {
					listed = l.Seq
					break
				}
			}
			sig := "C08/crd-deleted-with-instances/" + gk.Kind
			late := listed >= 0
			for _, k := range w.Store.KeysOf(gk) {
				if w.Store.StateAt(listed, k) != nil {
					late = false
				}
			}
			if late {
				// every surviving instance was created after the reconciler saw an empty list
				sig += "/created-after-empty-list"
			}
			w.S.Violate(sig, fmt.Sprintf("CRD %s was deleted while %d instance(s) exist", e.Key.Name, n))
		}
		if w.Engine.IsRunning(ctrl) {
			w.S.Violate("C08/crd-deleted-before-controller-stopped/"+gk.Kind, fmt.Sprintf("CRD %s was deleted while controller %s is still running", e.Key.Name, ctrl))
		}
		w.S.Probe("crd-deleted-by-xrd-controller")
	case e.Key.Group == xrworld.XRDGVK.Group && e.Key.Kind == xrworld.XRDGVK.Kind:
		// (c) XRD finalizers go only after the CRD is gone or was never ours
		uid := (&unstructured.Unstructured{Object: e.Before}).GetUID()
		for fin, crdName := range map[string]string{finDefined: "xthings.example.org", finOffered: "thingclaims.example.org"} {
			if !hasFin(e.Before, fin) || hasFin(e.After, fin) {
				continue
			}
			crd := w.Store.Peek(simapi.ObjKey{Group: crdGK.Group, Kind: crdGK.Kind, Name: crdName})
			if crd != nil && controlledBy(crd, uid) {
				w.S.Violate("C08/xrd-finalized-before-crd-gone/"+fin, fmt.Sprintf("XRD finalizer %s was removed while CRD %s still exists and is controlled by the XRD", fin, crdName))
			}
			w.S.Probe("xrd-finalizer-removed")
		}
	}
}
