// Package c06 checks property C06: a claim binds exactly one XR and never
// hijacks another claim's XR (DESIGN.md §7 C06).
package c06

import (
	"context"
	"fmt"
	"sort"
	"strings"
	"testing"

	"k8s.io/apimachinery/pkg/apis/meta/v1/unstructured"
	"k8s.io/apimachinery/pkg/types"

	"github.com/crossplane/crossplane/verifsim/kit"
	"github.com/crossplane/crossplane/verifsim/runner"
	"github.com/crossplane/crossplane/verifsim/sim"
	"github.com/crossplane/crossplane/verifsim/simapi"
	"github.com/crossplane/crossplane/verifsim/xrworld"
)

type prop struct{}

func init() { runner.Register(prop{}) }

func (prop) ID() string { return "C06" }

func (prop) Describe() runner.Description {
	return runner.Description{
		World:       "W-claim: W-xr + real offered.Reconciler -> real claim.Reconciler with the client-side or server-side-apply syncer (drawn per run); the claim controller's cache may serve stale claims",
		Real:        xrworld.RealComponents,
		Stub:        xrworld.StubComponents,
		Assumptions: kit.APIAssumptions,
		Rule:        "one case = one seeded run (1-2 claims created, edited, deleted, re-created; a user pointing a claim at another claim's XR; syncer drawn per run; cached claim reads lagging by a tape-chosen number of writes; faults and crashes at any call); non-trivial = at least one fault fired or two tasks interleaved; distinct = distinct trace hash",
		FaultKinds:  []string{"err-before", "err-after", "conflict", "crash-before", "crash-after", "stale (cached claim read)"},
	}
}

type state struct {
	w       *xrworld.W
	claims  []*xrworld.ClaimSpec
	taskOf  map[int]types.NamespacedName // reconcile task -> claim key
	created map[string]map[string]bool   // claim uid -> XR names created for it
}

func (prop) Run(t *testing.T, s *sim.Sim, res *runner.Result) {
	st := &state{taskOf: map[int]types.NamespacedName{}, created: map[string]map[string]bool{}}
	// the recorded bind race (DESIGN.md §0.5) does not end a run: the other
	// oracles keep judging the rest of it
	s.NotePrefixes = []string{"C06/touched-foreign-xr/bound-by-the-other-claim-after-this-reconcile-first-looked"}
	xrworld.Run(s, res, xrworld.Hooks{
		Opts: func(tp *sim.Tape) xrworld.Opts {
			return xrworld.Opts{Claims: true, SSAClaims: tp.Next(2) == 1, LagClaims: tp.Next(4) > 0}
		},
		NoXRs:    true,
		Params:   xrworld.DrawParams{ForcePipeline: true},
		Faults:   []sim.Outcome{sim.ErrBefore, sim.ErrAfter, sim.Conflict, sim.CrashBefore, sim.CrashAfter, sim.Stale},
		MaxChaos: 220,
		Started: func(w *xrworld.W, wl *xrworld.Workload) {
			st.w = w
			st.claims = xrworld.DrawClaims(s.Tape, wl, xrworld.DrawParams{}, 2)
			if len(st.claims) > 0 && s.Tape.Next(2) == 0 {
				// a claim of the same name in another namespace (a manifest copied across namespaces)
				twin := *st.claims[0]
				twin.NS = "other"
				st.claims = append(st.claims, &twin)
			}
			for _, c := range st.claims {
				if s.Tape.Next(3) > 0 {
					w.CreateClaim(c)
				}
			}
			w.OnStart = func(ctrl string, key types.NamespacedName, tk *sim.Task) {
				if strings.HasPrefix(ctrl, "claim/") {
					st.taskOf[tk.ID] = key
				}
			}
			w.Store.OnLog = append(w.Store.OnLog, st.onLog)
			res.Counters["syncer-ssa"] += b2i(w.Opts.SSAClaims)
			res.Counters["syncer-csa"] += b2i(!w.Opts.SSAClaims)
			res.Counters["lagging-claim-cache"] += b2i(w.Opts.LagClaims)
		},
		Env: func(w *xrworld.W, wl *xrworld.Workload) []sim.Action {
			var acts []sim.Action
			for _, c := range st.claims {
				c := c
				obj := w.Store.Peek(simapi.ObjKey{Group: xrworld.ClaimGVK.Group, Kind: xrworld.ClaimGVK.Kind, NS: c.NS, Name: c.Name})
				if obj == nil {
					acts = append(acts, sim.Action{Key: "create claim " + c.Name, Weight: 8, Run: func() { w.CreateClaim(c) }})
					continue
				}
				acts = append(acts, sim.Action{Key: "edit claim " + c.Name, Weight: 4, Run: func() { w.EditClaim(wl, c, xrworld.DrawParams{}, s.Tape) }})
				if (&unstructured.Unstructured{Object: obj}).GetDeletionTimestamp() == nil {
					acts = append(acts, sim.Action{Key: "delete claim " + c.Name, Weight: 2, Run: func() { w.DeleteClaim(c) }})
				}
			}
			// a user points a claim that has no XR yet at another claim's XR
			if len(st.claims) >= 2 {
				acts = append(acts, sim.Action{Key: "user points c1 at c0's XR", Weight: 1, Run: func() { st.pointAt(st.claims[1], st.claims[0]) }})
			}
			if n := len(st.claims); n >= 2 && st.claims[n-1].NS == "other" {
				acts = append(acts, sim.Action{Key: "user points other/c0 at default/c0's XR", Weight: 2, Run: func() { st.pointAt(st.claims[n-1], st.claims[0]) }})
			}
			{
				acts = append(acts, sim.Action{Key: "the name generator repeats names it has handed out before", Weight: 1, Run: func() { kit.RepeatNames(); w.S.Probe("generated-names-repeat") }})
			}
			// somebody deletes a bound XR out of band: it lingers, terminating, on its
			// finalizer while its claim is alive and keeps being reconciled
			for _, xr := range w.XRObjects() {
				xr := xr
				if xr.GetDeletionTimestamp() != nil {
					continue
				}
				acts = append(acts, sim.Action{Key: "somebody deletes XR " + xr.GetName(), Weight: 1, Run: func() {
					if w.Direct.Delete(context.Background(), xr.DeepCopy()) == nil {
						w.S.Probe("bound-xr-deleted-out-of-band")
					}
				}})
			}
			for _, k := range w.Store.GCCandidates() {
				k := k
				acts = append(acts, sim.Action{Key: "k8s-gc " + k.String(), Weight: 6, Run: func() { w.Store.GCStep(k) }})
			}
			return acts
		},
		Observe: func(w *xrworld.W, wl *xrworld.Workload) { st.observe() },
		Final: func(w *xrworld.W, wl *xrworld.Workload, quiet bool) {
			if !quiet {
				res.Inconclusive = "no-quiescence"
			}
		},
	})
}

func b2i(b bool) int {
	if b {
		return 1
	}
	return 0
}

func claimRefOf(xr map[string]any) (ns, name string, ok bool) {
	name, ok, _ = unstructured.NestedString(xr, "spec", "claimRef", "name")
	ns, _, _ = unstructured.NestedString(xr, "spec", "claimRef", "namespace")
	return ns, name, ok && name != ""
}

// pointAt sets claim a's resourceRef to b's XR (if a has none yet).
func (st *state) pointAt(a, b *xrworld.ClaimSpec) {
	ao, bo := st.w.ClaimObj(a), st.w.ClaimObj(b)
	if ao == nil || bo == nil || ao.GetDeletionTimestamp() != nil {
		return
	}
	if n, _, _ := unstructured.NestedString(ao.Object, "spec", "resourceRef", "name"); n != "" {
		return
	}
	bx, _, _ := unstructured.NestedString(bo.Object, "spec", "resourceRef", "name")
	if bx == "" {
		return
	}
	_ = unstructured.SetNestedMap(ao.Object, map[string]any{"apiVersion": "example.org/v1", "kind": "XThing", "name": bx}, "spec", "resourceRef")
	if st.w.Direct.Update(context.Background(), ao) == nil {
		st.w.S.Probe("claim-pointed-at-foreign-xr")
	}
}

// onLog judges every request that reaches the store.
func (st *state) onLog(e *simapi.LogEntry) {
	w := st.w
	if e.Key.Group != xrworld.XRGVK.Group || e.Key.Kind != xrworld.XRGVK.Kind || e.Injected != "" || e.DryRun {
		return
	}
	ck, isClaimTask := st.taskOf[e.TaskID]
	if !isClaimTask || e.Verb == "get" || e.Verb == "list" {
		return
	}
	// O3: never modify, rebind or delete an XR bound to a different claim.
	if e.Before != nil && e.Err == nil {
		if ns, name, ok := claimRefOf(e.Before); ok && (ns != ck.Namespace || name != ck.Name) {
			sig := "C06/touched-foreign-xr"
			// did this reconcile itself see the XR absent or unbound, and the other
			// claim bound it between that look and this write?
			first := true
			for _, l := range w.Store.Log {
				if l.TaskID == e.TaskID && l.Seq < e.Seq && l.Read && l.Verb == "get" && l.Key == e.Key && l.Injected == "" {
					if first {
						// absent, unbound, or still bound to this very claim
						if bns, bname, bound := claimRefOf(l.After); l.After == nil || !bound || (bns == ck.Namespace && bname == ck.Name) {
							sig += "/bound-by-the-other-claim-after-this-reconcile-first-looked"
						}
						first = false
					}
				}
			}
			w.S.Violate(sig, fmt.Sprintf("reconcile of claim %s committed %s on XR %s, which is bound to claim %s/%s", ck, e.Verb, e.Key.Name, ns, name))
		}
	}
	// O1/O2: XR creation.
	if e.Before == nil && e.After != nil && e.Err == nil {
		cm := w.Store.Peek(simapi.ObjKey{Group: xrworld.ClaimGVK.Group, Kind: xrworld.ClaimGVK.Kind, NS: ck.Namespace, Name: ck.Name})
		if cm == nil {
			w.S.Violate("C06/xr-created-for-missing-claim", fmt.Sprintf("XR %s created by a reconcile of claim %s, which no longer exists", e.Key.Name, ck))
			return
		}
		// a retry reuses the recorded name: the claim as this reconcile first read it
		for _, l := range w.Store.Log {
			if l.TaskID == e.TaskID && l.Read && l.Verb == "get" && l.Key.Kind == xrworld.ClaimGVK.Kind && l.Key.Name == ck.Name && l.Key.NS == ck.Namespace && l.After != nil {
				if rec, _, _ := unstructured.NestedString(l.After, "spec", "resourceRef", "name"); rec != "" && rec != e.Key.Name {
					w.S.Violate("C06/retry-used-another-name", fmt.Sprintf("claim %s had recorded XR name %q when this reconcile read it, but the reconcile created XR %s", ck, rec, e.Key.Name))
				}
				break
			}
		}
		ref, _, _ := unstructured.NestedString(cm, "spec", "resourceRef", "name")
		if ref != e.Key.Name {
			w.S.Violate("C06/xr-created-before-reference", fmt.Sprintf("XR %s created while the stored claim %s references %q", e.Key.Name, ck, ref))
		}
		uid := string((&unstructured.Unstructured{Object: cm}).GetUID())
		if st.created[uid] == nil {
			st.created[uid] = map[string]bool{}
		}
		st.created[uid][e.Key.Name] = true
		if len(st.created[uid]) > 1 {
			var ns []string
			for n := range st.created[uid] {
				ns = append(ns, n)
			}
			sort.Strings(ns)
			w.S.Violate("C06/second-xr-for-claim", fmt.Sprintf("claim %s (uid %s) caused XRs %v to be created", ck, uid, ns))
		}
		w.S.Probe("xr-created-by-claim")
	}
}

// observe: at most one live XR references any claim.
func (st *state) observe() {
	w := st.w
	per := map[string][]string{}
	for _, xr := range w.XRObjects() {
		if xr.GetDeletionTimestamp() != nil {
			continue // an earlier incarnation of the claim may still be tearing its XR down
		}
		if ns, name, ok := claimRefOf(xr.Object); ok {
			uid, _, _ := unstructured.NestedString(xr.Object, "spec", "claimRef", "uid")
			k := ns + "/" + name + "/" + uid
			per[k] = append(per[k], xr.GetName())
		}
	}
	for k, xs := range per {
		if len(xs) > 1 {
			sort.Strings(xs)
			w.S.Violate("C06/two-xrs-bound-to-claim", fmt.Sprintf("claim %s is referenced by XRs %v", k, xs))
		}
	}
}
