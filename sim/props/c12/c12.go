// Package c12 checks property C12: composition revisions form a faithful,
// monotonic history (DESIGN.md §7 C12).
package c12

import (
	"context"
	"fmt"
	"k8s.io/utils/ptr"
	"sort"
	"testing"
	"time"

	extv1 "k8s.io/apiextensions-apiserver/pkg/apis/apiextensions/v1"
	metav1 "k8s.io/apimachinery/pkg/apis/meta/v1"
	"k8s.io/apimachinery/pkg/apis/meta/v1/unstructured"
	kruntime "k8s.io/apimachinery/pkg/runtime"
	"k8s.io/apimachinery/pkg/runtime/schema"
	"k8s.io/apimachinery/pkg/types"
	"sigs.k8s.io/controller-runtime/pkg/client"
	"sigs.k8s.io/controller-runtime/pkg/reconcile"

	"github.com/crossplane/crossplane-runtime/pkg/resource"
	ucomposite "github.com/crossplane/crossplane-runtime/pkg/resource/unstructured/composite"

	v1 "github.com/crossplane/crossplane/apis/apiextensions/v1"
	"github.com/crossplane/crossplane/internal/controller/apiextensions/composite"
	"github.com/crossplane/crossplane/internal/controller/apiextensions/composition"
	"github.com/crossplane/crossplane/internal/xcrd"

	"github.com/crossplane/crossplane/verifsim/kit"
	"github.com/crossplane/crossplane/verifsim/runner"
	"github.com/crossplane/crossplane/verifsim/sim"
	"github.com/crossplane/crossplane/verifsim/simapi"
)

type prop struct{}

func init() { runner.Register(prop{}) }

func (prop) ID() string { return "C12" }

func (prop) Describe() runner.Description {
	return runner.Description{
		World: "W-rev: revision controller + XR revision selection on the simulated API server",
		Real: []string{"composition.Reconciler (internal/controller/apiextensions/composition)", "composition.NewCompositionRevision", "v1.Composition.Hash / v1.LatestRevision",
			"composite.APIRevisionFetcher (the XR reconciler's revision selection)", "crossplane-runtime APIPatchingApplicator", "xcrd.ForCompositeResource (XR CRD)", "cluster/crds/*.yaml (served schemas, defaults, pruning)"},
		Stub:        []string{"Kubernetes API server (simapi)", "controller-runtime manager/workqueue (scheduler decides when a reconcile starts)", "rest of the XR reconciler (only its revision fetch step runs)"},
		Assumptions: kit.APIAssumptions,
		Rule:        "one case = one seeded run (workload: edit sequence over 2-4 contents, restores, XR fetches; schedule and faults from the tape); non-trivial = at least one fault fired or at least two tasks were interleaved; distinct = distinct trace hash",
		FaultKinds:  []string{"err-before", "err-after", "conflict", "crash-before", "crash-after"},
	}
}

var (
	compGVK = v1.CompositionGroupVersionKind
	revGVK  = v1.CompositionRevisionGroupVersionKind
	xrGVK   = schema.GroupVersionKind{Group: "example.org", Version: "v1", Kind: "XThing"}
)

type content struct {
	id     string
	labels map[string]string
	annos  map[string]string
	step   string
	fn     string
	// legacy: the Pipeline-mode composition still carries this resource template
	// and a patch set (what a composition migrated in place from Resources mode looks like)
	legacy string
}

func xrd() *v1.CompositeResourceDefinition {
	return &v1.CompositeResourceDefinition{
		ObjectMeta: metav1.ObjectMeta{Name: "xthings.example.org", UID: "xrd-uid"},
		Spec: v1.CompositeResourceDefinitionSpec{
			Group: "example.org",
			Names: extv1.CustomResourceDefinitionNames{Kind: "XThing", Plural: "xthings", ListKind: "XThingList", Singular: "xthing"},
			Versions: []v1.CompositeResourceDefinitionVersion{{
				Name: "v1", Served: true, Referenceable: true,
				Schema: &v1.CompositeResourceValidation{OpenAPIV3Schema: kruntime.RawExtension{Raw: []byte(`{"type":"object","properties":{"spec":{"type":"object","properties":{"size":{"type":"integer"}}},"status":{"type":"object","properties":{"seen":{"type":"integer"}}}}}`)}},
			}},
		},
	}
}

type revTrack struct {
	specDigest string
	number     int64
	name       string
}

type world struct {
	kit.World
	t        *testing.T
	direct   *simapi.Client
	core     *sim.Proc
	pool     []content
	cur      int // index of current content
	xrs      []string
	revs     map[string]*revTrack // by uid
	manual   map[string]string    // XR name -> pinned revision
	fetchN   int
	inFetch  map[string]bool
	restores int
	edits    int
}

func (prop) Run(t *testing.T, s *sim.Sim, res *runner.Result) {
	w := &world{t: t, revs: map[string]*revTrack{}, manual: map[string]string{}, inFetch: map[string]bool{}}
	w.S, w.Res = s, res
	st := simapi.NewStore(kit.Scheme())
	w.Store = st
	if err := kit.ServeCore(st); err != nil {
		res.Trouble = err.Error()
		return
	}
	kit.HookLog(s, st)
	kit.SeedNames(s)
	w.direct = simapi.NewClient(st, nil, nil, "user")
	w.core = s.NewProc("core")
	ctx := context.Background()

	// ---- workload drawn from the tape
	tp := s.Tape
	nContents := 2 + tp.Next(3)
	for i := 0; i < nContents; i++ {
		c := content{id: fmt.Sprintf("c%d", i), labels: map[string]string{}, annos: map[string]string{}}
		kind := tp.Next(3)
		if i == 0 {
			kind = 0
		}
		c.step, c.fn = "s0", "fn-0"
		switch kind {
		case 0: // spec differs
			c.step, c.fn = fmt.Sprintf("s%d", i), fmt.Sprintf("fn-%d", i%2)
		case 1: // label-only edit
			c.labels["channel"] = fmt.Sprintf("l%d", i)
		case 2: // annotation-only edit
			c.annos["note"] = fmt.Sprintf("a%d", i)
		}
		if tp.Next(2) == 1 {
			c.labels["channel"] = fmt.Sprintf("l%d", i%2)
		}
		if tp.Next(4) == 0 {
			c.legacy = fmt.Sprintf("t%d", i%2)
		}
		dup := false
		for _, o := range w.pool {
			if sameContent(o, c) {
				dup = true
			}
		}
		if !dup {
			w.pool = append(w.pool, c)
		}
	}
	chaosSteps := 20 + tp.Next(140)
	nXR := tp.Next(4)
	kit.DrawFaults(s, []sim.Outcome{sim.ErrBefore, sim.ErrAfter, sim.Conflict, sim.CrashBefore, sim.CrashAfter})
	res.Workload = map[string]any{"contents": len(w.pool), "chaos_steps": chaosSteps, "xrs": nXR}

	// ---- setup
	crd, err := xcrd.ForCompositeResource(xrd())
	if err != nil {
		res.Trouble = err.Error()
		return
	}
	if err := w.direct.Create(ctx, crd); err != nil {
		res.Trouble = "create XR CRD: " + err.Error()
		return
	}
	comp := &v1.Composition{ObjectMeta: metav1.ObjectMeta{Name: "comp"}}
	w.applyContent(comp, w.pool[0])
	if err := w.direct.Create(ctx, comp); err != nil {
		res.Trouble = "create composition: " + err.Error()
		return
	}
	for i := 0; i < nXR; i++ {
		name := fmt.Sprintf("x%d", i)
		xr := &unstructured.Unstructured{Object: map[string]any{"apiVersion": "example.org/v1", "kind": "XThing",
			"metadata": map[string]any{"name": name}, "spec": map[string]any{"compositionRef": map[string]any{"name": "comp"}}}}
		switch tp.Next(3) {
		case 0:
			_ = unstructured.SetNestedField(xr.Object, "Automatic", "spec", "compositionUpdatePolicy")
		case 1:
			_ = unstructured.SetNestedField(xr.Object, "Manual", "spec", "compositionUpdatePolicy")
		case 2:
			_ = unstructured.SetNestedField(xr.Object, "Automatic", "spec", "compositionUpdatePolicy")
			_ = unstructured.SetNestedStringMap(xr.Object, map[string]string{"channel": fmt.Sprintf("l%d", tp.Next(2))}, "spec", "compositionRevisionSelector", "matchLabels")
		}
		if err := w.direct.Create(ctx, xr); err != nil {
			res.Trouble = "create XR: " + err.Error()
			return
		}
		w.xrs = append(w.xrs, name)
	}

	w.newProcess()
	w.observe()

	// ---- chaos
	s.Phase = "chaos"
	for i := 0; i < chaosSteps && len(s.Violations) == 0; i++ {
		if !s.StepOnce(w.envActions(), 30) {
			break
		}
		w.observe()
	}
	// ---- heal
	s.Phase = "heal"
	if w.core.Dead {
		s.Restart(w.core)
		w.newProcess()
	}
	quiet := w.Heal(8, func() {
		for _, x := range w.xrs {
			w.startFetch(x)
			w.Drain(2000)
		}
		w.observe()
	})
	w.observe()
	if !quiet {
		res.Inconclusive = "no-quiescence"
	} else if len(s.Violations) == 0 {
		w.finalOracle()
	}
	res.StateHashes = append(res.StateHashes, st.StateHash())
	s.Shutdown(w.core)
}

func sameContent(a, b content) bool {
	return a.step == b.step && a.fn == b.fn && a.legacy == b.legacy && fmt.Sprint(a.labels) == fmt.Sprint(b.labels) && fmt.Sprint(a.annos) == fmt.Sprint(b.annos)
}

func (w *world) applyContent(comp *v1.Composition, c content) {
	mode := v1.CompositionModePipeline
	comp.Labels = map[string]string{}
	for k, v := range c.labels {
		comp.Labels[k] = v
	}
	comp.Annotations = map[string]string{}
	for k, v := range c.annos {
		comp.Annotations[k] = v
	}
	comp.Spec = v1.CompositionSpec{
		CompositeTypeRef: v1.TypeReference{APIVersion: "example.org/v1", Kind: "XThing"},
		Mode:             &mode,
		Pipeline:         []v1.PipelineStep{{Step: c.step, FunctionRef: v1.FunctionReference{Name: c.fn}}},
	}
	if c.legacy != "" {
		comp.Spec.PatchSets = []v1.PatchSet{{Name: "common", Patches: []v1.Patch{{Type: v1.PatchTypeFromCompositeFieldPath, FromFieldPath: ptr.To("spec.size"), ToFieldPath: ptr.To("spec.size")}}}}
		comp.Spec.Resources = []v1.ComposedTemplate{{Name: ptr.To(c.legacy), Base: kruntime.RawExtension{Raw: []byte(`{"apiVersion":"things.example.org/v1","kind":"Thing","spec":{"tag":"` + c.legacy + `"}}`)},
			Patches:         []v1.Patch{{Type: v1.PatchTypePatchSet, PatchSetName: ptr.To("common")}},
			ReadinessChecks: []v1.ReadinessCheck{{Type: v1.ReadinessCheckTypeNone}}}}
	}
}

// newProcess builds fresh reconcilers (what a restarted pod does).
func (w *world) newProcess() {
	c := simapi.NewClient(w.Store, w.S, w.core, "revisions-controller")
	rec := composition.NewReconciler(kit.Mgr{C: c, S: w.Store.Scheme})
	ctrl := &kit.Controller{Name: "revisions", Proc: w.core, Reconcile: rec.Reconcile, Keys: kit.KeysOfKind(w.Store, compGVK.GroupKind()), Weight: 25}
	startSeq := map[types.NamespacedName]int{}
	ctrl.OnStart = func(k types.NamespacedName, t *sim.Task) { startSeq[k] = w.Store.Seq() }
	ctrl.OnDone = func(k types.NamespacedName, t *sim.Task, r reconcile.Result, err error) {
		if !t.Normal || err != nil || r.Requeue {
			return
		}
		// a successful reconcile that ran undisturbed: the current content has
		// exactly one revision, carrying the strictly highest number.
		for _, e := range w.Store.Log[startSeq[k]:] {
			if e.TaskID != t.ID && e.Changed {
				return
			}
		}
		w.S.Probe("undisturbed-successful-revision-reconcile")
		w.checkCurrent("after-reconcile")
	}
	w.Ctrls = []*kit.Controller{ctrl}
	w.inFetch = map[string]bool{}
}

func (w *world) envActions() []sim.Action {
	acts := w.ReconcileActions()
	if w.core.Dead {
		acts = append(acts, sim.Action{Key: "restart core", Weight: 30, Run: func() { w.S.Restart(w.core); w.newProcess() }})
	}
	for i := range w.pool {
		if i == w.cur {
			continue
		}
		i := i
		acts = append(acts, sim.Action{Key: "edit composition -> " + w.pool[i].id, Weight: 6, Run: func() { w.edit(i) }})
	}
	acts = append(acts, sim.Action{Key: "restore (strip owner references of revisions)", Weight: 3, Run: w.restore})
	acts = append(acts, sim.Action{Key: "somebody prunes an old revision that only Manual XRs are pinned to", Weight: 1, Run: w.prune})
	if !w.core.Dead {
		for _, x := range w.xrs {
			if w.inFetch[x] {
				continue
			}
			x := x
			acts = append(acts, sim.Action{Key: "xr-fetch " + x, Weight: 8, Run: func() { w.startFetch(x) }})
		}
	}
	acts = append(acts, sim.Action{Key: "advance 1s", Weight: 2, Run: func() { w.S.Advance(time.Second) }})
	return acts
}

func (w *world) edit(i int) {
	ctx := context.Background()
	comp := &v1.Composition{}
	if err := w.direct.Get(ctx, types.NamespacedName{Name: "comp"}, comp); err != nil {
		return
	}
	w.applyContent(comp, w.pool[i])
	if err := w.direct.Update(ctx, comp); err == nil {
		w.cur = i
		w.edits++
	}
}

func (w *world) restore() {
	ctx := context.Background()
	l := &v1.CompositionRevisionList{}
	_ = w.direct.List(ctx, l)
	for i := range l.Items {
		if len(l.Items[i].OwnerReferences) == 0 {
			continue
		}
		l.Items[i].OwnerReferences = nil
		_ = w.direct.Update(ctx, &l.Items[i])
	}
	w.restores++
	w.S.Probe("restore")
}

// prune deletes a revision that is neither current nor the highest numbered
// and that only XRs with the Manual policy reference: they stay pinned to it
// (and report an error) rather than move.
func (w *world) prune() {
	st := w.Store
	revs := revisions(st)
	var max int64
	for _, r := range revs {
		if n := number(r); n > max {
			max = n
		}
	}
	pinned := map[string]bool{}
	for _, x := range w.xrs {
		m := st.Peek(simapi.ObjKey{Group: xrGVK.Group, Kind: xrGVK.Kind, Name: x})
		if m == nil {
			continue
		}
		pol, _, _ := unstructured.NestedString(m, "spec", "compositionUpdatePolicy")
		ref, _, _ := unstructured.NestedString(m, "spec", "compositionRevisionRef", "name")
		if ref == "" {
			continue
		}
		if _, seen := pinned[ref]; !seen {
			pinned[ref] = true
		}
		if pol != "Manual" {
			pinned[ref] = false
		}
	}
	for _, r := range revs {
		if !pinned[r.GetName()] || number(r) == max || w.matches(r, w.pool[w.cur]) {
			continue
		}
		if w.direct.Delete(context.Background(), r.DeepCopy()) == nil {
			w.S.Probe("revision-pinned-by-a-manual-xr-pruned")
		}
		return
	}
}

// startFetch runs the XR reconciler's revision selection for one XR.
func (w *world) startFetch(name string) {
	if w.core.Dead || w.inFetch[name] {
		return
	}
	w.inFetch[name] = true
	w.fetchN++
	w.Res.Counters["xr-revision-fetch"]++
	c := simapi.NewClient(w.Store, w.S, w.core, "xr-controller")
	f := composite.NewAPIRevisionFetcher(resource.ClientApplicator{Client: c, Applicator: resource.NewAPIPatchingApplicator(c)})
	w.S.Go(w.core, fmt.Sprintf("xr-fetch/%s#%d", name, w.fetchN), func(ctx context.Context) {
		xr := ucomposite.New(ucomposite.WithGroupVersionKind(xrGVK))
		if err := c.Get(ctx, types.NamespacedName{Name: name}, xr); err != nil {
			return
		}
		_, _ = f.Fetch(ctx, xr)
	}, func(t *sim.Task) { delete(w.inFetch, name); w.S.Logf("done %s", t.Label) })
}

func revisions(st *simapi.Store) []*unstructured.Unstructured {
	var out []*unstructured.Unstructured
	for _, k := range st.KeysOf(revGVK.GroupKind()) {
		out = append(out, &unstructured.Unstructured{Object: st.Peek(k)})
	}
	return out
}

func specSansRevision(u *unstructured.Unstructured) map[string]any {
	sp, _, _ := unstructured.NestedMap(u.Object, "spec")
	delete(sp, "revision")
	return sp
}

func number(u *unstructured.Unstructured) int64 {
	n, _, _ := unstructured.NestedInt64(u.Object, "spec", "revision")
	return n
}

// userLabels strips the labels the revision controller adds itself.
func userLabels(u *unstructured.Unstructured) map[string]string {
	out := map[string]string{}
	for k, v := range u.GetLabels() {
		if k == v1.LabelCompositionName || k == v1.LabelCompositionHash {
			continue
		}
		out[k] = v
	}
	return out
}

// observe evaluates the every-step invariants.
func (w *world) observe() {
	st := w.Store
	groups := map[string][]string{}
	for _, r := range revisions(st) {
		uid := string(r.GetUID())
		d := simapi.Digest(specSansRevision(r))
		n := number(r)
		if tr, ok := w.revs[uid]; ok {
			if tr.specDigest != d {
				w.S.Violate("C12/revision-spec-edited", fmt.Sprintf("revision %s: spec (apart from the revision number) changed after creation", r.GetName()))
			}
			if n < tr.number {
				w.S.Violate("C12/revision-number-decreased", fmt.Sprintf("revision %s: number went %d -> %d", r.GetName(), tr.number, n))
			}
			tr.number = n
		} else {
			w.revs[uid] = &revTrack{specDigest: d, number: n, name: r.GetName()}
			// a new revision must capture a content the Composition has had
			ok := false
			for _, c := range w.pool {
				if w.matches(r, c) {
					ok = true
				}
			}
			if !ok {
				w.S.Violate("C12/revision-captures-no-content", fmt.Sprintf("revision %s equals no content the Composition ever had", r.GetName()))
			}
		}
		g := d + "|" + fmt.Sprint(userLabels(r)) + "|" + r.GetLabels()[v1.LabelCompositionHash]
		groups[g] = append(groups[g], r.GetName())
	}
	for _, names := range groups {
		if len(names) > 1 {
			sort.Strings(names)
			w.S.Violate("C12/two-revisions-one-content", fmt.Sprintf("revisions %v capture the same content", names))
		}
	}
	// Manual XRs never move.
	for _, x := range w.xrs {
		m := st.Peek(simapi.ObjKey{Group: xrGVK.Group, Kind: xrGVK.Kind, Name: x})
		if m == nil {
			continue
		}
		pol, _, _ := unstructured.NestedString(m, "spec", "compositionUpdatePolicy")
		ref, _, _ := unstructured.NestedString(m, "spec", "compositionRevisionRef", "name")
		if pol != "Manual" && ref != "" {
			// an Automatic XR only ever selects among revisions its selector matches
			sel, _, _ := unstructured.NestedStringMap(m, "spec", "compositionRevisionSelector", "matchLabels")
			if rm := st.Peek(simapi.ObjKey{Group: revGVK.Group, Kind: revGVK.Kind, Name: ref}); rm != nil && len(sel) > 0 {
				ls := (&unstructured.Unstructured{Object: rm}).GetLabels()
				for k, v := range sel {
					if ls[k] != v {
						w.S.Violate("C12/automatic-xr-ignores-selector", fmt.Sprintf("XR %s selects revisions with %s=%s but references %s (labels %v)", x, k, v, ref, userLabels(&unstructured.Unstructured{Object: rm})))
					}
				}
			}
		}
		if pol != "Manual" || ref == "" {
			continue
		}
		if old, ok := w.manual[x]; ok && old != ref {
			w.S.Violate("C12/manual-xr-moved", fmt.Sprintf("XR %s with Manual policy moved from %s to %s", x, old, ref))
		}
		w.manual[x] = ref
	}
}

// matches reports whether revision r captures content c (spec and labels; the
// annotations of a Composition are not copied to its revisions).
func (w *world) matches(r *unstructured.Unstructured, c content) bool {
	comp := &v1.Composition{}
	w.applyContent(comp, c)
	want, _ := simapi.ToMap(comp)
	// what the API server would store for that spec (defaults)
	wantSpec, _, _ := unstructured.NestedMap(want, "spec")
	got := specSansRevision(r)
	if simapi.Digest(dropDefaults(got)) != simapi.Digest(dropDefaults(wantSpec)) {
		return false
	}
	return fmt.Sprint(userLabels(r)) == fmt.Sprint(c.labels)
}

// dropDefaults removes fields the API server defaults, so that a spec can be
// compared before and after defaulting.
func dropDefaults(m map[string]any) map[string]any {
	out := kruntime.DeepCopyJSON(m)
	delete(out, "mode")
	delete(out, "publishConnectionDetailsWithStoreConfigRef")
	return out
}

// checkCurrent: the current content has exactly one revision and it carries
// the strictly highest number among the Composition's revisions.
func (w *world) checkCurrent(when string) {
	cur := w.pool[w.cur]
	var match []*unstructured.Unstructured
	var max int64
	maxCount := 0
	revs := revisions(w.Store)
	for _, r := range revs {
		n := number(r)
		if n > max {
			max, maxCount = n, 1
		} else if n == max {
			maxCount++
		}
	}
	// annotation-only variants share spec+labels: tell them apart by the hash label of the newest match
	for _, r := range revs {
		if w.matches(r, cur) {
			match = append(match, r)
		}
	}
	if len(match) == 0 {
		w.S.Violate("C12/current-content-has-no-revision/"+when, fmt.Sprintf("no revision captures current content %s", cur.id))
		return
	}
	best := match[0]
	for _, r := range match {
		if number(r) > number(best) {
			best = r
		}
	}
	if number(best) != max || maxCount != 1 {
		w.S.Violate("C12/current-revision-not-highest/"+when, fmt.Sprintf("content %s: revision %s has number %d, highest is %d (held by %d revisions)", cur.id, best.GetName(), number(best), max, maxCount))
	}
}

func (w *world) finalOracle() {
	w.S.Phase = "probe"
	w.checkCurrent("at-quiescence")
	// Automatic XRs follow the highest-numbered revision controlled by the
	// Composition (restricted by their selector); end to end that is the
	// revision of the current content when it matches the selector.
	compm := w.Store.Peek(simapi.ObjKey{Group: compGVK.Group, Kind: compGVK.Kind, Name: "comp"})
	compUID := (&unstructured.Unstructured{Object: compm}).GetUID()
	for _, x := range w.xrs {
		m := w.Store.Peek(simapi.ObjKey{Group: xrGVK.Group, Kind: xrGVK.Kind, Name: x})
		pol, _, _ := unstructured.NestedString(m, "spec", "compositionUpdatePolicy")
		ref, _, _ := unstructured.NestedString(m, "spec", "compositionRevisionRef", "name")
		if pol == "Manual" {
			continue
		}
		sel, _, _ := unstructured.NestedStringMap(m, "spec", "compositionRevisionSelector", "matchLabels")
		var best *unstructured.Unstructured
		ties := 0
		for _, r := range revisions(w.Store) {
			controlled := false
			for _, o := range r.GetOwnerReferences() {
				if o.Controller != nil && *o.Controller && o.UID == compUID {
					controlled = true
				}
			}
			if !controlled {
				continue
			}
			ok := true
			for k, v := range sel {
				if r.GetLabels()[k] != v {
					ok = false
				}
			}
			if !ok {
				continue
			}
			if best == nil || number(r) > number(best) {
				best, ties = r, 1
			} else if number(r) == number(best) {
				ties++
			}
		}
		if best == nil {
			if ref != "" && len(sel) == 0 {
				w.S.Violate("C12/automatic-xr-ref-without-revision", fmt.Sprintf("XR %s references %s but no controlled revision exists", x, ref))
			}
			continue
		}
		if ties > 1 {
			w.S.Violate("C12/automatic-xr-ambiguous-highest", fmt.Sprintf("XR %s: %d revisions share the highest number %d", x, ties, number(best)))
			continue
		}
		if ref != best.GetName() {
			w.S.Violate("C12/automatic-xr-not-on-highest", fmt.Sprintf("XR %s references %q, highest matching revision is %s (number %d)", x, ref, best.GetName(), number(best)))
		}
	}
	w.S.Probe("final-oracle")
	_ = client.ObjectKey{}
}
