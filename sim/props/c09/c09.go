// Package c09 checks property C09: connection details reach only their
// owner's secret, filtered, from the right XR (DESIGN.md §7 C09).
package c09

import (
	"context"
	"encoding/base64"
	"fmt"
	"reflect"
	"sort"
	"strings"
	"testing"

	"k8s.io/apimachinery/pkg/apis/meta/v1/unstructured"
	"k8s.io/apimachinery/pkg/runtime"
	"k8s.io/apimachinery/pkg/types"
	"sigs.k8s.io/controller-runtime/pkg/reconcile"

	"github.com/crossplane/crossplane/verifsim/kit"
	"github.com/crossplane/crossplane/verifsim/runner"
	"github.com/crossplane/crossplane/verifsim/sim"
	"github.com/crossplane/crossplane/verifsim/simapi"
	"github.com/crossplane/crossplane/verifsim/simfn"
	"github.com/crossplane/crossplane/verifsim/xrworld"
)

type prop struct{}

func init() { runner.Register(prop{}) }

func (prop) ID() string { return "C09" }

func (prop) Describe() runner.Description {
	return runner.Description{
		World:       "W-claim: real XR reconciler (function pipeline emitting connection details) with the real APIFilteredSecretPublisher, real claim reconciler with the real APIConnectionPropagator",
		Real:        xrworld.RealComponents,
		Stub:        xrworld.StubComponents,
		Assumptions: kit.APIAssumptions,
		Rule:        "one case = one seeded run (XRD key filter drawn: none / [user] / [user,pass]; 1-3 pipeline steps emitting keys user/pass/extra; Composition with or without writeConnectionSecretsToNamespace; claims with and without writeConnectionSecretToRef; secrets pre-existing at the claim's secret name: absent, uncontrolled, foreign-controlled, other type; a stranger taking the XR's secret name; faults and crashes); non-trivial = at least one fault fired or two tasks interleaved; distinct = distinct trace hash",
		FaultKinds:  []string{"err-before", "err-after", "conflict", "crash-before", "crash-after"},
	}
}

type state struct {
	w       *xrworld.W
	wl      *xrworld.Workload
	pw      int
	fn      *simfn.Transport
	claims  []*xrworld.ClaimSpec
	filter  []string
	xrTask  map[int]string               // XR reconcile task -> XR name
	cmTask  map[int]types.NamespacedName // claim reconcile task -> claim
	foreign map[simapi.ObjKey]string     // foreign-controlled secrets -> digest
}

func (prop) Run(t *testing.T, s *sim.Sim, res *runner.Result) {
	st := &state{xrTask: map[int]string{}, cmTask: map[int]types.NamespacedName{}, foreign: map[simapi.ObjKey]string{}}
	xrworld.Run(s, res, xrworld.Hooks{
		Opts: func(tp *sim.Tape) xrworld.Opts {
			st.filter = [][]string{nil, {"user"}, {"user", "pass"}}[tp.Next(3)]
			return xrworld.Opts{Claims: true, SSAClaims: tp.Next(2) == 1, ConnKeys: st.filter}
		},
		NoXRs:    true,
		Params:   xrworld.DrawParams{Conn: true, PTConn: true},
		Faults:   []sim.Outcome{sim.ErrBefore, sim.ErrAfter, sim.Conflict, sim.CrashBefore, sim.CrashAfter},
		MaxChaos: 240,
		Started: func(w *xrworld.W, wl *xrworld.Workload) {
			st.w = w
			st.wl = wl
			st.fn = w.Fn
			if wl.Pipeline {
				res.Counters["mode-pipeline"]++
			} else {
				res.Counters["mode-resources"]++
			}
			w.OnFnTransport = func(tr *simfn.Transport) { st.fn = tr }
			st.claims = xrworld.DrawClaims(s.Tape, wl, xrworld.DrawParams{Conn: true}, 2)
			ctx := context.Background()
			for _, c := range st.claims {
				// a secret may already sit at the name the claim will ask for
				if c.WriteConn {
					switch s.Tape.Next(5) {
					case 1: // uncontrolled
						_ = w.Direct.Create(ctx, secret("default", c.Name+"-conn", "connection.crossplane.io/v1alpha1", nil, map[string]string{"old": "b2xk"}))
					case 2: // controlled by a stranger
						sec := secret("default", c.Name+"-conn", "Opaque", map[string]any{"apiVersion": "v1", "kind": "ConfigMap", "name": "stranger", "uid": "stranger-uid", "controller": true}, map[string]string{"theirs": "c2VjcmV0"})
						if w.Direct.Create(ctx, sec) == nil {
							k := simapi.ObjKey{Kind: "Secret", NS: "default", Name: c.Name + "-conn"}
							st.foreign[k] = simapi.Digest(w.Store.Peek(k))
						}
					case 3: // other type, uncontrolled
						_ = w.Direct.Create(ctx, secret("default", c.Name+"-conn", "kubernetes.io/tls", nil, map[string]string{"tls.crt": "Yw==", "tls.key": "aw=="}))
					}
				}
				w.CreateClaim(c)
			}
			w.OnStart = func(ctrl string, key types.NamespacedName, tk *sim.Task) {
				if strings.HasPrefix(ctrl, "claim/") {
					st.cmTask[tk.ID] = key
				} else if strings.HasPrefix(ctrl, "composite/") {
					st.xrTask[tk.ID] = key.Name
				}
			}
			w.Store.OnLog = append(w.Store.OnLog, st.onLog)
			w.OnClaimDone = func(key types.NamespacedName, tk *sim.Task, startSeq int, _ reconcile.Result, err error) {
				if err == nil && tk.Normal && len(tk.FaultSteps) == 0 {
					st.judgeExactCopy(key, tk, startSeq)
				}
			}
			w.OnXRDone = func(key types.NamespacedName, tk *sim.Task, startSeq int, _ reconcile.Result, err error) {
				if err == nil && tk.Normal && len(tk.FaultSteps) == 0 && !wl.Pipeline {
					st.judgePTComplete(key, tk, startSeq)
				}
			}
			res.Counters[fmt.Sprintf("xrd-filter-%d-keys", len(st.filter))]++
		},
		Env: func(w *xrworld.W, wl *xrworld.Workload) []sim.Action {
			var acts []sim.Action
			for _, c := range st.claims {
				c := c
				acts = append(acts, sim.Action{Key: "edit claim " + c.Name, Weight: 3, Run: func() { w.EditClaim(wl, c, xrworld.DrawParams{}, s.Tape) }})
			}
			// a provider publishes (or rotates, or loses) the connection secret of a
			// composed resource; a secret of the same name in another namespace is
			// somebody else's
			for _, c := range w.ComposedObjects() {
				sns, _, _ := unstructured.NestedString(c.Obj.Object, "spec", "writeConnectionSecretToRef", "namespace")
				sn, _, _ := unstructured.NestedString(c.Obj.Object, "spec", "writeConnectionSecretToRef", "name")
				if sn == "" {
					continue
				}
				acts = append(acts, sim.Action{Key: "a provider publishes the connection secret " + sn, Weight: 3, Run: func() {
					ctx := context.Background()
					st.pw++
					k := simapi.ObjKey{Kind: "Secret", NS: sns, Name: sn}
					d := map[string]string{"password": base64.StdEncoding.EncodeToString([]byte(fmt.Sprintf("pw-%s-%d", sn, st.pw)))}
					if s.Tape.Next(4) == 0 {
						d["endpoint"] = base64.StdEncoding.EncodeToString([]byte("ep-" + sn))
					}
					switch m := w.Store.Peek(k); {
					case m == nil:
						if w.Direct.Create(ctx, secret(sns, sn, "connection.crossplane.io/v1alpha1", nil, d)) == nil {
							w.S.Probe("composed-connection-secret-published")
						}
						if s.Tape.Next(3) == 0 {
							_ = w.Direct.Create(ctx, secret("default", sn, "Opaque", nil, map[string]string{"password": base64.StdEncoding.EncodeToString([]byte("not-this-one"))}))
						}
					case s.Tape.Next(4) == 0:
						if w.Direct.Delete(ctx, &unstructured.Unstructured{Object: runtime.DeepCopyJSON(m)}) == nil {
							w.S.Probe("composed-connection-secret-lost")
						}
					default:
						u := &unstructured.Unstructured{Object: runtime.DeepCopyJSON(m)}
						dd := map[string]any{}
						for kk, v := range d {
							dd[kk] = v
						}
						_ = unstructured.SetNestedMap(u.Object, dd, "data")
						if w.Direct.Update(ctx, u) == nil {
							w.S.Probe("composed-connection-secret-rotated")
						}
					}
				}})
			}
			if !wl.Pipeline {
				acts = append(acts, sim.Action{Key: "edit composition", Weight: 2, Run: func() { w.EditComposition(wl, s.Tape) }})
				if cs := w.ComposedObjects(); len(cs) > 0 {
					acts = append(acts, sim.Action{Key: "a provider updates the status of a composed resource", Weight: 2, Run: func() {
						c := cs[s.Tape.Next(len(cs))]
						u := c.Obj.DeepCopy()
						_ = unstructured.SetNestedField(u.Object, fmt.Sprintf("p%d", s.Tape.Next(1000)), "status", "phase")
						_ = w.Direct.Status().Update(context.Background(), u)
					}})
				}
			}
			// an XR is force-deleted (its claim will create it again under the same name)
			for _, xr := range w.XRObjects() {
				xr := xr
				acts = append(acts, sim.Action{Key: "XR " + xr.GetName() + " is force-deleted", Weight: 1, Run: func() {
					ctx := context.Background()
					x := xr.DeepCopy()
					if w.Direct.Get(ctx, types.NamespacedName{Name: x.GetName()}, x) != nil {
						return
					}
					x.SetFinalizers(nil)
					if w.Direct.Update(ctx, x) == nil && w.Direct.Delete(ctx, x) == nil {
						w.S.Probe("xr-force-deleted")
						if s.Tape.Next(2) == 0 {
							// ... and created again at once under the same name (what its claim
							// would do at its next reconcile): same spec, a new object
							n := &unstructured.Unstructured{Object: map[string]any{"apiVersion": x.GetAPIVersion(), "kind": x.GetKind(),
								"metadata": map[string]any{"name": x.GetName(), "labels": x.Object["metadata"].(map[string]any)["labels"]}, "spec": x.Object["spec"]}}
							if w.Direct.Create(ctx, n) == nil {
								w.S.Probe("xr-created-again-under-the-same-name")
							}
						}
					}
				}})
			}
			// a stranger takes the name an XR will publish its secret under
			for _, xr := range w.XRObjects() {
				ns, _, _ := unstructured.NestedString(xr.Object, "spec", "writeConnectionSecretToRef", "namespace")
				n, _, _ := unstructured.NestedString(xr.Object, "spec", "writeConnectionSecretToRef", "name")
				k := simapi.ObjKey{Kind: "Secret", NS: ns, Name: n}
				if n == "" {
					continue
				}
				if _, isForeign := st.foreign[k]; !isForeign {
					// the XR's secret is lost (or was never there) and somebody leaves an
					// uncontrolled secret of the connection type under its name
					acts = append(acts, sim.Action{Key: "somebody leaves an uncontrolled connection secret at " + n, Weight: 1, Run: func() {
						ctx := context.Background()
						if m := w.Store.Peek(k); m != nil {
							_ = w.Direct.Delete(ctx, &unstructured.Unstructured{Object: runtime.DeepCopyJSON(m)})
						}
						var owner map[string]any
						what := "uncontrolled-connection-secret-at-xr-secret-name"
						if s.Tape.Next(3) == 0 {
							// ... or one controlled by another object that happens to have the XR's name
							owner = map[string]any{"apiVersion": "example.org/v1", "kind": "XOther", "name": xr.GetName(), "uid": "namesake-uid", "controller": true}
							what = "connection-secret-of-a-namesake-at-xr-secret-name"
						}
						typ := "connection.crossplane.io/v1alpha1"
						if owner == nil && s.Tape.Next(3) == 0 {
							// ... or somebody's own secret, of an ordinary type
							typ, what = "Opaque", "uncontrolled-secret-of-another-type-at-xr-secret-name"
						}
						sec := secret(ns, n, typ, owner, map[string]string{"leftover": "bGVmdA==", "user": "c29tZW9uZQ=="})
						if w.Direct.Create(ctx, sec) == nil {
							w.S.Probe(what)
						}
					}})
				}
				if w.Store.Peek(k) != nil {
					continue
				}
				acts = append(acts, sim.Action{Key: "stranger creates the secret " + n, Weight: 1, Run: func() {
					sec := secret(ns, n, "Opaque", map[string]any{"apiVersion": "v1", "kind": "ConfigMap", "name": "stranger", "uid": "stranger-uid", "controller": true}, map[string]string{"theirs": "c2VjcmV0"})
					if w.Direct.Create(context.Background(), sec) == nil {
						st.foreign[k] = simapi.Digest(w.Store.Peek(k))
						w.S.Probe("stranger-took-xr-secret-name")
					}
				}})
			}
			return acts
		},
		Observe: func(w *xrworld.W, wl *xrworld.Workload) {
			for k, d := range st.foreign {
				m := w.Store.Peek(k)
				if m == nil {
					w.S.Violate("C09/foreign-secret-deleted", fmt.Sprintf("secret %s/%s controlled by another owner disappeared", k.NS, k.Name))
				} else if simapi.Digest(m) != d {
					w.S.Violate("C09/foreign-secret-modified", fmt.Sprintf("secret %s/%s controlled by another owner was modified", k.NS, k.Name))
				}
			}
		},
		Final: func(w *xrworld.W, wl *xrworld.Workload, quiet bool) {
			if !quiet {
				res.Inconclusive = "no-quiescence"
			}
		},
	})
}

// judgeExactCopy: after a claim reconcile that ran to the end, the claim's
// secret is an exact copy of the XR's secret as that reconcile read it - keys
// the XR's secret no longer has are gone from the copy as well.
func (st *state) judgeExactCopy(key types.NamespacedName, tk *sim.Task, startSeq int) {
	w := st.w
	var src, dst, xr map[string]any
	var dstKey simapi.ObjKey
	for _, e := range w.Store.Log[startSeq:] {
		if e.TaskID != tk.ID {
			// somebody else wrote one of the secrets meanwhile: nothing definite to compare
			if !e.Read && e.Err == nil && e.Injected == "" && e.Key.Kind == "Secret" && e.Key.Group == "" {
				return
			}
			continue
		}
		if e.Err != nil || e.Injected != "" || e.DryRun || e.After == nil {
			continue
		}
		if e.Key.Kind == xrworld.XRGVK.Kind && e.Read && xr == nil {
			xr = e.After
		}
	}
	cm := w.Store.Peek(simapi.ObjKey{Group: xrworld.ClaimGVK.Group, Kind: xrworld.ClaimGVK.Kind, NS: key.Namespace, Name: key.Name})
	if cm == nil || xr == nil || (&unstructured.Unstructured{Object: cm}).GetDeletionTimestamp() != nil {
		return
	}
	dn, _, _ := unstructured.NestedString(cm, "spec", "writeConnectionSecretToRef", "name")
	sns, _, _ := unstructured.NestedString(xr, "spec", "writeConnectionSecretToRef", "namespace")
	sn, _, _ := unstructured.NestedString(xr, "spec", "writeConnectionSecretToRef", "name")
	if dn == "" || sn == "" {
		return
	}
	dstKey = simapi.ObjKey{Kind: "Secret", NS: key.Namespace, Name: dn}
	for _, e := range w.Store.Log[startSeq:] {
		if e.TaskID != tk.ID || e.Err != nil || e.Injected != "" || e.DryRun || e.After == nil || e.Key.Kind != "Secret" {
			continue
		}
		if e.Key.Name == sn && e.Key.NS == sns && e.Read {
			src = e.After
		}
		if e.Key == dstKey {
			dst = e.After
		}
	}
	if src == nil || dst == nil {
		return // the reconcile did not get as far as propagating
	}
	if controllerUID(src) != (&unstructured.Unstructured{Object: xr}).GetUID() || controllerUID(dst) != (&unstructured.Unstructured{Object: cm}).GetUID() {
		return
	}
	if !reflect.DeepEqual(data(src), data(dst)) {
		w.S.Violate("C09/claim-secret-not-an-exact-copy", fmt.Sprintf("claim %s finished a reconcile that read its XR's secret as %v, but its own secret holds %v", key, data(src), data(dst)))
		return
	}
	w.S.Probe("claim-secret-exact-copy-checked")
}

func secret(ns, name, typ string, owner map[string]any, data map[string]string) *unstructured.Unstructured {
	d := map[string]any{}
	for k, v := range data {
		d[k] = v
	}
	u := &unstructured.Unstructured{Object: map[string]any{"apiVersion": "v1", "kind": "Secret", "type": typ,
		"metadata": map[string]any{"name": name, "namespace": ns}, "data": d}}
	if owner != nil {
		_ = unstructured.SetNestedSlice(u.Object, []any{owner}, "metadata", "ownerReferences")
	}
	return u
}

func data(m map[string]any) map[string]string {
	out := map[string]string{}
	if m == nil {
		return out
	}
	d, _, _ := unstructured.NestedMap(m, "data")
	for k, v := range d {
		if s, ok := v.(string); ok {
			b, _ := base64.StdEncoding.DecodeString(s)
			out[k] = string(b)
		}
	}
	return out
}

func controllerUID(m map[string]any) types.UID {
	if m == nil {
		return ""
	}
	for _, o := range (&unstructured.Unstructured{Object: m}).GetOwnerReferences() {
		if o.Controller != nil && *o.Controller {
			return o.UID
		}
	}
	return ""
}

// changedKeys returns the keys a write added or changed.
func changedKeys(before, after map[string]string) []string {
	var out []string
	for k, v := range after {
		if old, ok := before[k]; !ok || old != v {
			out = append(out, k)
		}
	}
	sort.Strings(out)
	return out
}

func (st *state) onLog(e *simapi.LogEntry) {
	w := st.w
	if e.Read || e.Injected != "" || e.DryRun || e.Key.Kind != "Secret" || e.Key.Group != "" || e.Actor != "core" {
		return
	}
	if xrName, ok := st.xrTask[e.TaskID]; ok {
		st.judgeXRSecretWrite(e, xrName)
		return
	}
	if ck, ok := st.cmTask[e.TaskID]; ok {
		st.judgeClaimSecretWrite(e, ck)
	}
	_ = w
}

func (st *state) judgeXRSecretWrite(e *simapi.LogEntry, xrName string) {
	w := st.w
	cur := w.Store.Peek(simapi.ObjKey{Group: xrworld.XRGVK.Group, Kind: xrworld.XRGVK.Kind, Name: xrName})
	// the XR as this reconcile last saw it (a read, or the answer to its own
	// write): the object of that name may have been deleted and created again
	var xr map[string]any
	for i := len(w.Store.Log) - 1; i >= 0; i-- {
		l := w.Store.Log[i]
		if l.TaskID == e.TaskID && l.Seq < e.Seq && l.Key.Kind == xrworld.XRGVK.Kind && l.Key.Group == xrworld.XRGVK.Group && l.Key.Name == xrName && l.After != nil && l.Err == nil && l.Injected == "" && (l.Read || !l.DryRun) {
			xr = l.After
			break
		}
	}
	if xr == nil || cur == nil {
		return
	}
	ns, _, _ := unstructured.NestedString(xr, "spec", "writeConnectionSecretToRef", "namespace")
	n, _, _ := unstructured.NestedString(xr, "spec", "writeConnectionSecretToRef", "name")
	if n == "" {
		w.S.Violate("C09/secret-written-for-xr-that-asks-for-none", fmt.Sprintf("reconcile of XR %s issued %s on secret %s/%s although the XR has no writeConnectionSecretToRef", xrName, e.Verb, e.Key.NS, e.Key.Name))
		return
	}
	if e.Key.NS != ns || e.Key.Name != n {
		w.S.Violate("C09/xr-wrote-other-secret", fmt.Sprintf("reconcile of XR %s issued %s on secret %s/%s; its own secret is %s/%s", xrName, e.Verb, e.Key.NS, e.Key.Name, ns, n))
		return
	}
	if e.Err != nil {
		return
	}
	xrUID := (&unstructured.Unstructured{Object: xr}).GetUID()
	// from the right XR: a reconcile working on one incarnation of the XR never
	// publishes into the secret a later incarnation of the same name controls
	if curUID := (&unstructured.Unstructured{Object: cur}).GetUID(); curUID != xrUID && e.Changed && controllerUID(e.After) == curUID {
		w.S.Violate("C09/published-into-secret-of-another-xr-incarnation", fmt.Sprintf("reconcile of XR %s worked on the XR with UID %s but wrote the secret controlled by the XR that now has that name (UID %s)", xrName, xrUID, curUID))
		return
	}
	// every incarnation of the XR this reconcile dealt with: it may have read one
	// object and - that one deleted meanwhile - had its own create-if-missing
	// apply answered with a new one; the secret of either is its XR's secret
	mine := map[types.UID]bool{xrUID: true}
	for _, l := range w.Store.Log {
		if l.Seq >= e.Seq {
			break
		}
		if l.TaskID == e.TaskID && l.Key.Kind == xrworld.XRGVK.Kind && l.Key.Group == xrworld.XRGVK.Group && l.Key.Name == xrName && l.After != nil && l.Err == nil && l.Injected == "" {
			mine[(&unstructured.Unstructured{Object: l.After}).GetUID()] = true
		}
	}
	if c := controllerUID(e.Before); c != "" && mine[c] && c != xrUID {
		w.S.Probe("xr-secret-of-the-incarnation-this-reconcile-started-on")
	}
	if c := controllerUID(e.Before); c != "" && !mine[c] {
		sig := "C09/xr-wrote-foreign-secret"
		// did the secret look like the XR's own (or absent, or uncontrolled) when
		// this reconcile last read it, and was it swapped before the write?
		for i := len(w.Store.Log) - 1; i >= 0; i-- {
			l := w.Store.Log[i]
			if l.TaskID == e.TaskID && l.Seq < e.Seq && l.Read && l.Verb == "get" && l.Key == e.Key && l.Injected == "" {
				if rc := controllerUID(l.After); l.After == nil || rc == "" || rc == xrUID {
					sig += "/replaced-after-this-reconcile-read-it"
				}
				break
			}
		}
		w.S.Violate(sig, fmt.Sprintf("reconcile of XR %s wrote secret %s/%s, which another owner controls", xrName, ns, n))
		return
	}
	// an uncontrolled secret that is not a connection secret is somebody's own:
	// judged when this reconcile itself had read it as such (a swap between its
	// read and its write is the check-then-act window recorded under
	// xr-wrote-foreign-secret/replaced-after-this-reconcile-read-it)
	if e.Before != nil && controllerUID(e.Before) == "" && e.Changed {
		if typ, _, _ := unstructured.NestedString(e.Before, "type"); typ != "connection.crossplane.io/v1alpha1" {
			for i := len(w.Store.Log) - 1; i >= 0; i-- {
				l := w.Store.Log[i]
				if l.TaskID == e.TaskID && l.Seq < e.Seq && l.Read && l.Verb == "get" && l.Key == e.Key && l.Injected == "" {
					if rt, _, _ := unstructured.NestedString(l.After, "type"); l.After != nil && controllerUID(l.After) == "" && rt == typ {
						w.S.Violate("C09/xr-wrote-secret-of-another-type", fmt.Sprintf("reconcile of XR %s wrote secret %s/%s, an uncontrolled secret of type %q (not a connection secret) as it had read it", xrName, ns, n, typ))
						return
					}
					break
				}
			}
			w.S.Probe("uncontrolled-secret-of-another-type-swapped-in-between-read-and-write")
			return
		}
	}
	// what did the composition produce in this reconcile?
	produced := map[string]string{}
	found := false
	if !st.wl.Pipeline {
		var ok bool
		if produced, ok = st.ptProduced(e, xrUID); !ok {
			w.S.Probe("pt-secret-write-not-judged")
			return
		}
		found = true
	}
	for _, c := range st.fn.Calls {
		if c.TaskID == e.TaskID && c.Err == nil && c.Rsp != nil {
			found = true
			produced = map[string]string{}
			for k, v := range c.Rsp.GetDesired().GetComposite().GetConnectionDetails() {
				produced[k] = string(v)
			}
		}
	}
	// ... produced for this XR: the pipeline whose output is published observed
	// the very object that controls the secret
	for i := len(st.fn.Calls) - 1; i >= 0; i-- {
		c := st.fn.Calls[i]
		if c.TaskID != e.TaskID || c.Req == nil {
			continue
		}
		ou, _, _ := unstructured.NestedString(c.Req.GetObserved().GetComposite().GetResource().AsMap(), "metadata", "uid")
		if cu := controllerUID(e.After); e.Changed && ou != "" && cu != "" && string(cu) != ou {
			w.S.Violate("C09/published-values-computed-for-another-xr", fmt.Sprintf("reconcile of XR %s published into secret %s/%s (controlled by UID %s) what its pipeline computed while observing the XR with UID %s", xrName, e.Key.NS, e.Key.Name, cu, ou))
			return
		}
		break
	}
	if !found {
		w.S.Violate("C09/secret-written-without-pipeline-output", fmt.Sprintf("reconcile of XR %s wrote its secret although no function responded in this reconcile", xrName))
		return
	}
	allowed := map[string]bool{}
	for _, k := range st.filter {
		allowed[k] = true
	}
	// identical data is never rewritten: the secret already held exactly what
	// this reconcile wants to publish (a secret that holds other keys as well is
	// not identical, even though a merge leaves it as it is)
	if !e.Changed && e.Before != nil {
		want := map[string]string{}
		for k, v := range produced {
			if len(st.filter) == 0 || allowed[k] {
				want[k] = v
			}
		}
		if reflect.DeepEqual(want, data(e.Before)) {
			w.S.Violate("C09/identical-data-rewritten/xr", fmt.Sprintf("reconcile of XR %s issued %s on its secret although it already held exactly the data to publish", xrName, e.Verb))
			return
		}
		w.S.Probe("no-op-merge-into-secret-with-other-keys")
	}
	after := data(e.After)
	for _, k := range changedKeys(data(e.Before), after) {
		if len(st.filter) > 0 && !allowed[k] {
			w.S.Violate("C09/filtered-key-published", fmt.Sprintf("XR %s's secret received key %q, which the XRD's connectionSecretKeys %v do not allow", xrName, k, st.filter))
		}
		if v, ok := produced[k]; !ok || v != after[k] {
			w.S.Violate("C09/foreign-value-published", fmt.Sprintf("XR %s's secret received %s=%q, which the composition did not produce for this XR in this reconcile (produced %v)", xrName, k, after[k], produced))
		}
	}
	if !st.wl.Pipeline && e.After != nil {
		// ... and everything it produced (and the XRD allows) is in the secret
		for k, v := range produced {
			if (len(st.filter) == 0 || allowed[k]) && after[k] != v {
				w.S.Violate("C09/produced-value-not-published", fmt.Sprintf("XR %s's secret holds %s=%q after a write of a reconcile whose composition produced %q for it (produced %v)", xrName, k, after[k], v, produced))
			}
		}
		w.S.Probe("pt-secret-write-judged")
	}
	w.S.Probe("xr-secret-write-judged")
}

// judgePTComplete: an XR reconcile (Resources mode) that ran to the end
// without a fault leaves - in the XR's secret as that reconcile itself last
// saw or wrote it - every allowed key with the value its composition produced;
// also when it decided that nothing had to be written.
func (st *state) judgePTComplete(key types.NamespacedName, tk *sim.Task, startSeq int) {
	w := st.w
	var xr, sec map[string]any
	for _, l := range w.Store.Log[startSeq:] {
		if l.TaskID != tk.ID || l.Injected != "" || l.DryRun || l.Err != nil {
			continue
		}
		if l.Key.Kind == xrworld.XRGVK.Kind && l.Key.Group == xrworld.XRGVK.Group && l.Key.Name == key.Name && l.After != nil {
			xr = l.After
		}
	}
	if xr == nil || (&unstructured.Unstructured{Object: xr}).GetDeletionTimestamp() != nil {
		return
	}
	ns, _, _ := unstructured.NestedString(xr, "spec", "writeConnectionSecretToRef", "namespace")
	n, _, _ := unstructured.NestedString(xr, "spec", "writeConnectionSecretToRef", "name")
	if n == "" {
		return
	}
	seen := false
	for _, l := range w.Store.Log[startSeq:] {
		if l.TaskID != tk.ID || l.Injected != "" || l.DryRun || l.Key.Kind != "Secret" || l.Key.Group != "" || l.Key.NS != ns || l.Key.Name != n || l.Verb == "list" {
			continue
		}
		if l.Err != nil && l.After != nil {
			continue
		}
		seen = true
		sec = l.After
	}
	xrUID := (&unstructured.Unstructured{Object: xr}).GetUID()
	if !seen || sec == nil || controllerUID(sec) != xrUID {
		return
	}
	produced, ok := st.ptProduced(&simapi.LogEntry{Seq: len(w.Store.Log), TaskID: tk.ID}, xrUID)
	if !ok {
		return
	}
	have := data(sec)
	for k, v := range produced {
		allowed := len(st.filter) == 0
		for _, f := range st.filter {
			allowed = allowed || f == k
		}
		if allowed && have[k] != v {
			w.S.Violate("C09/produced-value-not-published", fmt.Sprintf("reconcile of XR %s ran to the end; its composition produced %s=%q but the XR's secret as this reconcile left it holds %q (produced %v, secret %v)", key.Name, k, v, have[k], produced, have))
			return
		}
	}
	w.S.Probe("pt-published-complete-checked")
}

// ptProduced is the reference model of what a Resources-mode composition
// produces for the XR, computed from what this reconcile itself read: the
// composition revision, every composed resource as its apply answered (or as
// it was read), and the composed resources' own connection secrets. ok=false:
// the reads do not determine it.
func (st *state) ptProduced(e *simapi.LogEntry, xrUID types.UID) (map[string]string, bool) {
	w := st.w
	var rev map[string]any
	cds := map[string]map[string]any{}
	secrets := map[simapi.ObjKey]*simapi.LogEntry{}
	for _, l := range w.Store.Log {
		if l.Seq >= e.Seq {
			break
		}
		if l.TaskID != e.TaskID || l.Err != nil && l.After != nil || l.Injected != "" || l.DryRun {
			continue
		}
		switch {
		case l.Key.Kind == "CompositionRevision" && l.Read && l.After != nil && l.Err == nil:
			rev = l.After
		case l.Key.Kind == "CompositionRevision" && l.Read && l.Verb == "list" && l.Err == nil:
			// Automatic update policy: the highest numbered revision listed
			best := int64(-1)
			for _, it := range l.Items {
				if n, _, _ := unstructured.NestedInt64(it, "spec", "revision"); n > best {
					best, rev = n, it
				}
			}
		case l.Key.Group == xrworld.ThingGVK.Group && l.After != nil && l.Err == nil && l.Verb != "list":
			u := &unstructured.Unstructured{Object: l.After}
			if rn := u.GetAnnotations()["crossplane.io/composition-resource-name"]; rn != "" && controllerUID(l.After) == xrUID {
				cds[rn] = l.After
			}
		case l.Key.Kind == "Secret" && l.Key.Group == "" && l.Read && l.Verb == "get":
			secrets[l.Key] = l
		}
	}
	if rev == nil {
		w.S.Probe("pt-secret-write-not-judged/no-revision-read")
		return nil, false
	}
	out := map[string]string{}
	tmpls, _, _ := unstructured.NestedSlice(rev, "spec", "resources")
	for _, ti := range tmpls {
		t, _ := ti.(map[string]any)
		name, _ := t["name"].(string)
		cd := cds[name]
		if cd == nil {
			w.S.Probe("pt-secret-write-not-judged/composed-resource-not-seen")
			return nil, false
		}
		var sd map[string]string
		if sn, _, _ := unstructured.NestedString(cd, "spec", "writeConnectionSecretToRef", "name"); sn != "" {
			sns, _, _ := unstructured.NestedString(cd, "spec", "writeConnectionSecretToRef", "namespace")
			l := secrets[simapi.ObjKey{Kind: "Secret", NS: sns, Name: sn}]
			if l == nil || l.Err != nil && l.After != nil {
				w.S.Probe("pt-secret-write-not-judged/composed-secret-not-read")
				return nil, false
			}
			sd = data(l.After)
		}
		cfgs, _, _ := unstructured.NestedSlice(t, "connectionDetails")
		for _, ci := range cfgs {
			c, _ := ci.(map[string]any)
			key, _ := c["name"].(string)
			switch {
			case c["value"] != nil:
				out[key], _ = c["value"].(string)
			case c["fromConnectionSecretKey"] != nil:
				from, _ := c["fromConnectionSecretKey"].(string)
				if key == "" {
					key = from
				}
				if v, ok := sd[from]; ok {
					out[key] = v
					w.S.Probe("pt-detail-from-composed-connection-secret")
				}
			case c["fromFieldPath"] != nil:
				path, _ := c["fromFieldPath"].(string)
				if v, ok, _ := unstructured.NestedString(cd, strings.Split(path, ".")...); ok {
					out[key] = v
				} else {
					w.S.Probe("pt-detail-path-missing")
				}
			}
		}
	}
	return out, true
}

func (st *state) judgeClaimSecretWrite(e *simapi.LogEntry, ck types.NamespacedName) {
	w := st.w
	cm := w.Store.Peek(simapi.ObjKey{Group: xrworld.ClaimGVK.Group, Kind: xrworld.ClaimGVK.Kind, NS: ck.Namespace, Name: ck.Name})
	if cm == nil {
		return
	}
	n, _, _ := unstructured.NestedString(cm, "spec", "writeConnectionSecretToRef", "name")
	if n == "" {
		w.S.Violate("C09/secret-written-for-claim-that-asks-for-none", fmt.Sprintf("reconcile of claim %s issued %s on secret %s/%s although the claim has no writeConnectionSecretToRef", ck, e.Verb, e.Key.NS, e.Key.Name))
		return
	}
	if e.Key.NS != ck.Namespace || e.Key.Name != n {
		w.S.Violate("C09/claim-wrote-other-secret", fmt.Sprintf("reconcile of claim %s issued %s on secret %s/%s; its own secret is %s/%s", ck, e.Verb, e.Key.NS, e.Key.Name, ck.Namespace, n))
		return
	}
	if e.Err != nil {
		return
	}
	cmUID := (&unstructured.Unstructured{Object: cm}).GetUID()
	if c := controllerUID(e.Before); c != "" && c != cmUID {
		w.S.Violate("C09/claim-wrote-foreign-secret", fmt.Sprintf("reconcile of claim %s wrote secret %s/%s, which another owner controls", ck, e.Key.NS, e.Key.Name))
		return
	}
	if !e.Changed && e.Before != nil {
		w.S.Violate("C09/identical-data-rewritten/claim", fmt.Sprintf("reconcile of claim %s issued %s on its secret with identical content", ck, e.Verb))
		return
	}
	// the source: the bound XR's secret, which that XR must control
	xrName, _, _ := unstructured.NestedString(cm, "spec", "resourceRef", "name")
	// the bound XR as this reconcile read it (the object of that name may have
	// been deleted and created again since)
	var xr map[string]any
	for i := len(w.Store.Log) - 1; i >= 0; i-- {
		l := w.Store.Log[i]
		if l.TaskID == e.TaskID && l.Key.Kind == xrworld.XRGVK.Kind && l.Key.Group == xrworld.XRGVK.Group && l.Key.Name == xrName && l.Err == nil && l.Injected == "" && l.After != nil && (l.Read || !l.DryRun) {
			xr = l.After
			break
		}
	}
	if xr == nil {
		w.S.Violate("C09/claim-secret-without-xr", fmt.Sprintf("claim %s's secret was written although this reconcile never saw its XR %q", ck, xrName))
		return
	}
	sns, _, _ := unstructured.NestedString(xr, "spec", "writeConnectionSecretToRef", "namespace")
	sn, _, _ := unstructured.NestedString(xr, "spec", "writeConnectionSecretToRef", "name")
	// the source as the reconcile read it
	var src map[string]any
	for i := len(w.Store.Log) - 1; i >= 0; i-- {
		l := w.Store.Log[i]
		if l.TaskID == e.TaskID && l.Read && l.Verb == "get" && l.Key.Kind == "Secret" && l.Key.Name == sn && l.Key.NS == sns {
			src = l.After
			break
		}
	}
	if src == nil {
		w.S.Violate("C09/claim-secret-without-source", fmt.Sprintf("claim %s's secret was written although its XR's secret %s/%s was not read (or does not exist)", ck, sns, sn))
		return
	}
	if controllerUID(src) != (&unstructured.Unstructured{Object: xr}).GetUID() {
		w.S.Violate("C09/claim-copied-secret-xr-does-not-own", fmt.Sprintf("claim %s copied secret %s/%s, which its XR %s does not control", ck, sns, sn, xrName))
		return
	}
	sd := data(src)
	after := data(e.After)
	for _, k := range changedKeys(data(e.Before), after) {
		if v, ok := sd[k]; !ok || v != after[k] {
			w.S.Violate("C09/claim-secret-differs-from-xr-secret", fmt.Sprintf("claim %s's secret received %s=%q, which is not in its XR's secret (%v)", ck, k, after[k], sd))
		}
	}
	for k, v := range sd {
		if after[k] != v {
			w.S.Violate("C09/claim-secret-incomplete-copy", fmt.Sprintf("claim %s's secret lacks %s=%q of its XR's secret", ck, k, v))
		}
	}
	w.S.Probe("claim-secret-write-judged")
}
