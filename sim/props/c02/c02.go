// Package c02 checks property C02: Crossplane never modifies, adopts or
// deletes what another owner controls (DESIGN.md §7 C02).
package c02

import (
	"context"
	"fmt"
	"strings"
	"testing"

	metav1 "k8s.io/apimachinery/pkg/apis/meta/v1"
	"k8s.io/apimachinery/pkg/apis/meta/v1/unstructured"
	"k8s.io/apimachinery/pkg/runtime"
	"k8s.io/apimachinery/pkg/types"
	"k8s.io/utils/ptr"

	"github.com/crossplane/crossplane/verifsim/kit"
	"github.com/crossplane/crossplane/verifsim/pkgworld"
	"github.com/crossplane/crossplane/verifsim/runner"
	"github.com/crossplane/crossplane/verifsim/sim"
	"github.com/crossplane/crossplane/verifsim/simapi"
	"github.com/crossplane/crossplane/verifsim/simfn"
	"github.com/crossplane/crossplane/verifsim/xrworld"
)

type prop struct{}

func init() { runner.Register(prop{}) }

func (prop) ID() string { return "C02" }

func (prop) Describe() runner.Description {
	return runner.Description{
		World:       "four worlds, one drawn per run: W-xr (both composers, XR connection secret), W-claim (claim connection secret, both XRD controllers' CRDs), W-pkg (package revisions and package objects), W-rbac (real rbac/definition, rbac/provider/roles and rbac/provider/binding reconcilers)",
		Real:        append(append([]string{}, xrworld.RealComponents...), "manager.Reconciler, revision.Reconciler + APIEstablisher (W-pkg)"),
		Stub:        xrworld.StubComponents,
		Assumptions: kit.APIAssumptions,
		Rule:        "one case = one seeded run: a stranger places objects carrying controller:true for a foreign UID at the names Crossplane will write: a composed resource named in spec.resourceRefs, the name a function asks for, the XR's and the claim's connection secret, the CRDs both XRD controllers derive, the package revision name and a package object, the RBAC manager's derived ClusterRoles and ClusterRoleBinding; faults and crashes on top; non-trivial = at least one fault fired or two tasks interleaved; distinct = distinct trace hash",
		FaultKinds:  []string{"err-before", "err-after", "conflict", "crash-before", "crash-after"},
	}
}

// guard watches foreign-controlled objects.
type guard struct {
	s      *sim.Sim
	st     *simapi.Store
	placed map[simapi.ObjKey]string
	what   map[simapi.ObjKey]string
}

func newGuard(s *sim.Sim, st *simapi.Store) *guard {
	g := &guard{s: s, st: st, placed: map[simapi.ObjKey]string{}, what: map[simapi.ObjKey]string{}}
	st.OnLog = append(st.OnLog, g.onLog)
	return g
}

func (g *guard) place(k simapi.ObjKey, placement string) {
	if m := g.st.Peek(k); m != nil {
		g.placed[k] = simapi.Digest(m)
		g.what[k] = placement
		g.s.Probe("placed/" + placement)
	}
}

// observe: the foreign object is left exactly as it was.
func (g *guard) observe() {
	for k, d := range g.placed {
		m := g.st.Peek(k)
		if m == nil {
			g.s.Violate("C02/foreign-object-deleted/"+g.what[k], fmt.Sprintf("%s %s/%s, controlled by another owner (%s), was deleted", k.Kind, k.NS, k.Name, g.what[k]))
		} else if simapi.Digest(m) != d {
			g.s.Violate("C02/foreign-object-modified/"+g.what[k], fmt.Sprintf("%s %s/%s, controlled by another owner (%s), was modified", k.Kind, k.NS, k.Name, g.what[k]))
		}
	}
}

// onLog: no Crossplane write is ever committed on a guarded object.
func (g *guard) onLog(e *simapi.LogEntry) {
	if e.Read || e.Injected != "" || e.DryRun || e.Err != nil {
		return
	}
	if _, ok := g.placed[e.Key]; !ok {
		return
	}
	if e.Actor == "user" || e.Actor == "gc" || e.Actor == "apiserver" || e.Actor == "stranger" {
		return
	}
	if e.Changed || e.Removed {
		sig := "C02/write-committed-on-foreign-object/" + g.what[e.Key]
		switch g.what[e.Key] {
		case "replaced-composed-resource":
			// placed while reconciles were in flight: which request went through matters
			sig += "/" + e.Verb
		case "composed-resource-taken-over", "crd-handed-over":
			// the same object changed hands: did the writing reconcile act on a copy
			// (read earlier, or served by a lagging cache) that still showed it as its own?
			sig += "/" + e.Verb
			for i := len(g.st.Log) - 1; i >= 0; i-- {
				l := g.st.Log[i]
				if l.TaskID == e.TaskID && l.Seq < e.Seq && l.Read && l.Verb == "get" && l.Key == e.Key && l.Injected == "" && l.After != nil {
					foreign := false
					for _, o := range (&unstructured.Unstructured{Object: l.After}).GetOwnerReferences() {
						if o.Controller != nil && *o.Controller && o.UID == "stranger-uid" {
							foreign = true
						}
					}
					if !foreign {
						sig += "/acted-on-a-copy-that-showed-it-as-its-own"
					}
					break
				}
			}
		}
		g.s.Violate(sig, fmt.Sprintf("%s committed %s on %s %s/%s, which another owner controls (%s)", e.Actor, e.Verb, e.Key.Kind, e.Key.NS, e.Key.Name, g.what[e.Key]))
		// one report per object: what happens to it afterwards is a consequence
		delete(g.placed, e.Key)
	}
}

func foreignOwner() []any {
	return []any{map[string]any{"apiVersion": "v1", "kind": "ConfigMap", "name": "stranger", "uid": "stranger-uid", "controller": true, "blockOwnerDeletion": true}}
}

func mk(apiVersion, kind, ns, name string, extra map[string]any) *unstructured.Unstructured {
	u := &unstructured.Unstructured{Object: map[string]any{"apiVersion": apiVersion, "kind": kind, "metadata": map[string]any{"name": name}}}
	if ns != "" {
		u.SetNamespace(ns)
	}
	for k, v := range extra {
		u.Object[k] = v
	}
	_ = unstructured.SetNestedSlice(u.Object, foreignOwner(), "metadata", "ownerReferences")
	return u
}

func (prop) Run(t *testing.T, s *sim.Sim, res *runner.Result) {
	switch s.Tape.Next(4) {
	case 0:
		runXR(s, res)
	case 1:
		runClaim(s, res)
	case 2:
		runRBAC(s, res)
	default:
		pkgworld.Run(s, res, pkgworld.Mode{C02: true})
	}
}

func stranger(w *xrworld.W) *simapi.Client {
	// the stranger itself must exist, or the garbage collector would (rightly) collect its objects
	cm := &unstructured.Unstructured{Object: map[string]any{"apiVersion": "v1", "kind": "ConfigMap", "metadata": map[string]any{"name": "stranger", "namespace": "default"}}}
	_ = w.Direct.Create(context.Background(), cm)
	return simapi.NewClient(w.Store, nil, nil, "stranger")
}

// runXR: placements against both composers and the XR secret publisher.
func runXR(s *sim.Sim, res *runner.Result) {
	var g *guard
	var blocked []string
	var sc *simapi.Client
	xrworld.Run(s, res, xrworld.Hooks{
		Opts: func(tp *sim.Tape) xrworld.Opts {
			lag := tp.Next(2) == 1
			return xrworld.Opts{LagComposed: lag, LagManual: lag && tp.Next(2) == 1}
		},
		Params: xrworld.DrawParams{Conn: true, MaxXR: 1},
		Faults: []sim.Outcome{sim.ErrBefore, sim.ErrAfter, sim.Conflict, sim.CrashBefore, sim.CrashAfter, sim.Stale},
		Env: func(w *xrworld.W, wl *xrworld.Workload) []sim.Action {
			// a composed resource is deleted out of band and another owner creates
			// (and controls) an object of the same name before the XR notices
			cs := w.ComposedObjects()
			if len(cs) == 0 || sc == nil {
				return nil
			}
			return []sim.Action{{Key: "control of a composed resource passes to a stranger", Weight: 2, Run: func() {
				// the same object: its controller reference now names another owner
				c := cs[s.Tape.Next(len(cs))]
				if _, ok := g.placed[c.Key]; ok {
					return
				}
				u := c.Obj.DeepCopy()
				u.SetOwnerReferences(nil)
				_ = unstructured.SetNestedSlice(u.Object, foreignOwner(), "metadata", "ownerReferences")
				if sc.Update(context.Background(), u) == nil {
					g.place(c.Key, "composed-resource-taken-over")
				}
			}}, {Key: "a stranger replaces a composed resource under its name", Weight: 2, Run: func() {
				c := cs[s.Tape.Next(len(cs))]
				if _, ok := g.placed[c.Key]; ok || len(c.Obj.GetFinalizers()) > 0 {
					return
				}
				ctx := context.Background()
				if w.Direct.Delete(ctx, c.Obj.DeepCopy()) != nil || w.Store.Peek(c.Key) != nil {
					return
				}
				u := mk(c.Obj.GetAPIVersion(), c.Obj.GetKind(), "", c.Obj.GetName(), map[string]any{"spec": map[string]any{"tag": "theirs"}})
				if sc.Create(ctx, u) == nil {
					g.place(c.Key, "replaced-composed-resource")
				}
			}}}
		},
		Setup: func(w *xrworld.W, wl *xrworld.Workload) error {
			g = newGuard(s, w.Store)
			// the pipeline chooses metadata.name itself so that the stranger can be there first
			if wl.Pipeline && len(wl.Steps) > 0 {
				wl.Steps[0].Ops = append(wl.Steps[0].Ops, simfn.Op{"op": "nameFrom", "field": "spec.size"})
				cur := wl.Composition()
				old, _ := simapi.ToMap(cur)
				u := &unstructured.Unstructured{}
				u.SetGroupVersionKind(xrworld.CompGVK)
				if err := w.Direct.Get(context.Background(), types.NamespacedName{Name: "comp"}, u); err == nil {
					u.Object["spec"] = old["spec"]
					_ = w.Direct.Update(context.Background(), u)
				}
			}
			return nil
		},
		Started: func(w *xrworld.W, wl *xrworld.Workload) {
			ctx := context.Background()
			sc = stranger(w)
			x := wl.XRs[0]
			// (1) the name a desired resource asks for
			if wl.Pipeline && len(x.Items) > 0 {
				n := fmt.Sprintf("%s-%s-%d", x.Name, x.Items[0], x.Size)
				av, kind := simfn.KindFor(x.Items[0])
				if sc.Create(ctx, mk(av, kind, "", n, map[string]any{"spec": map[string]any{"tag": "theirs"}})) == nil {
					g.place(simapi.ObjKey{Group: "things.example.org", Kind: kind, Name: n}, "desired-resource-name")
					blocked = append(blocked, x.Name)
				}
			}
			// (2) an object named in spec.resourceRefs (annotated with a resource name the composition uses)
			if s.Tape.Next(2) == 0 {
				rn := "a"
				u := mk("things.example.org/v1", "Thing", "", "theirs-referenced", map[string]any{"spec": map[string]any{"tag": "theirs"}})
				u.SetAnnotations(map[string]string{"crossplane.io/composition-resource-name": rn})
				if sc.Create(ctx, u) == nil {
					g.place(simapi.ObjKey{Group: "things.example.org", Kind: "Thing", Name: "theirs-referenced"}, "named-in-resource-refs")
					xr := &unstructured.Unstructured{}
					xr.SetGroupVersionKind(xrworld.XRGVK)
					if w.Direct.Get(ctx, types.NamespacedName{Name: x.Name}, xr) == nil {
						_ = unstructured.SetNestedSlice(xr.Object, []any{map[string]any{"apiVersion": "things.example.org/v1", "kind": "Thing", "name": "theirs-referenced"}}, "spec", "resourceRefs")
						_ = w.Direct.Update(ctx, xr)
					}
				}
			}
			// (3) the XR's connection secret
			if x.WriteConn {
				sec := mk("v1", "Secret", "default", x.Name+"-conn", map[string]any{"type": "Opaque", "data": map[string]any{"theirs": "c2VjcmV0"}})
				label := "xr-connection-secret"
				if s.Tape.Next(2) == 0 {
					// the secret an earlier XR of the same name left behind: its controller
					// has this XR's type and name, and another UID
					sec.Object["type"] = "connection.crossplane.io/v1alpha1"
					_ = unstructured.SetNestedSlice(sec.Object, []any{map[string]any{"apiVersion": "example.org/v1", "kind": "XThing", "name": x.Name, "uid": "an-earlier-xr-of-that-name", "controller": true, "blockOwnerDeletion": true}}, "metadata", "ownerReferences")
					label = "xr-connection-secret/of-an-earlier-xr-of-that-name"
				}
				if sc.Create(ctx, sec) == nil {
					g.place(simapi.ObjKey{Kind: "Secret", NS: "default", Name: x.Name + "-conn"}, label)
				}
			}
		},
		Observe: func(w *xrworld.W, wl *xrworld.Workload) { g.observe() },
		Final: func(w *xrworld.W, wl *xrworld.Workload, quiet bool) {
			if !quiet {
				// safety was judged at every step; a blocked XR may keep re-generating
				// a name for the resource it cannot take over
				w.S.Probe("no-quiescence-while-blocked")
				return
			}
			// the conflict surfaces: a blocked XR is not reported synced, or a warning was recorded
			for _, n := range blocked {
				surfaces(w, n)
			}
		},
	})
}

// surfaces checks that a blocked XR shows the conflict (condition or event).
func surfaces(w *xrworld.W, xrName string) {
	xr := w.Store.Peek(simapi.ObjKey{Group: xrworld.XRGVK.Group, Kind: xrworld.XRGVK.Kind, Name: xrName})
	if xr == nil {
		return
	}
	// only judged while the foreign object still sits at a name the XR currently wants
	for _, e := range w.Events {
		if e.Name == xrName && e.Type == "Warning" {
			w.S.Probe("conflict-surfaced-as-event")
			return
		}
	}
	conds, _, _ := unstructured.NestedSlice(xr, "status", "conditions")
	for _, c := range conds {
		m, _ := c.(map[string]any)
		if m["type"] == "Synced" && m["status"] != "True" {
			w.S.Probe("conflict-surfaced-as-condition")
			return
		}
	}
	w.S.Probe("conflict-not-visible")
}

// runClaim: the claim's connection secret and the CRDs of both XRD controllers.
func runClaim(s *sim.Sim, res *runner.Result) {
	var g *guard
	var claims []*xrworld.ClaimSpec
	crdTaken := s.Tape.Next(3) == 0
	h := xrworld.Hooks{
		Opts: func(tp *sim.Tape) xrworld.Opts {
			return xrworld.Opts{Claims: true, SSAClaims: tp.Next(2) == 1}
		},
		NoXRs:    true,
		Params:   xrworld.DrawParams{ForcePipeline: true, Conn: true},
		Faults:   []sim.Outcome{sim.ErrBefore, sim.ErrAfter, sim.Conflict, sim.CrashBefore, sim.CrashAfter},
		MaxChaos: 200,
		Setup: func(w *xrworld.W, wl *xrworld.Workload) error {
			g = newGuard(s, w.Store)
			if crdTaken {
				// a stranger controls the CRD name an XRD controller derives
				ctx := context.Background()
				sc := stranger(w)
				name := []string{"xthings.example.org", "thingclaims.example.org"}[s.Tape.Next(2)]
				kind := map[string]string{"xthings.example.org": "XThing", "thingclaims.example.org": "ThingClaim"}[name]
				plural := strings.SplitN(name, ".", 2)[0]
				crd := mk("apiextensions.k8s.io/v1", "CustomResourceDefinition", "", name, map[string]any{"spec": map[string]any{
					"group": "example.org", "scope": "Cluster", "names": map[string]any{"kind": kind, "plural": plural, "listKind": kind + "List"},
					"versions": []any{map[string]any{"name": "v1", "served": true, "storage": true, "schema": map[string]any{"openAPIV3Schema": map[string]any{"type": "object", "x-kubernetes-preserve-unknown-fields": true}}}}}})
				if err := sc.Create(ctx, crd); err != nil {
					return err
				}
				g.place(simapi.ObjKey{Group: "apiextensions.k8s.io", Kind: "CustomResourceDefinition", Name: name}, "xrd-derived-crd")
			}
			return nil
		},
		BootOptional: crdTaken,
		Started: func(w *xrworld.W, wl *xrworld.Workload) {
			if crdTaken {
				return
			}
			ctx := context.Background()
			sc := stranger(w)
			claims = xrworld.DrawClaims(s.Tape, wl, xrworld.DrawParams{Conn: true}, 2)
			for _, c := range claims {
				c.WriteConn = true
				if sc.Create(ctx, mk("v1", "Secret", "default", c.Name+"-conn", map[string]any{"type": "Opaque", "data": map[string]any{"theirs": "c2VjcmV0"}})) == nil {
					g.place(simapi.ObjKey{Kind: "Secret", NS: "default", Name: c.Name + "-conn"}, "claim-connection-secret")
				}
				w.CreateClaim(c)
			}
		},
		Env: func(w *xrworld.W, wl *xrworld.Workload) []sim.Action {
			var acts []sim.Action
			for _, c := range claims {
				c := c
				acts = append(acts, sim.Action{Key: "edit claim " + c.Name, Weight: 3, Run: func() { w.EditClaim(wl, c, xrworld.DrawParams{}, s.Tape) }})
			}
			if !crdTaken {
				// control of a CRD the XRD created passes to another owner (the XRD
				// stays on it as a plain owner); later the XRD is deleted
				for _, name := range []string{"xthings.example.org", "thingclaims.example.org"} {
					k := simapi.ObjKey{Group: "apiextensions.k8s.io", Kind: "CustomResourceDefinition", Name: name}
					m := w.Store.Peek(k)
					if _, done := g.placed[k]; done || m == nil {
						continue
					}
					acts = append(acts, sim.Action{Key: "control of CRD " + name + " passes to a stranger", Weight: 1, Run: func() {
						u := &unstructured.Unstructured{Object: runtime.DeepCopyJSON(w.Store.Peek(k))}
						refs := u.GetOwnerReferences()
						for i := range refs {
							refs[i].Controller = ptr.To(false)
							refs[i].BlockOwnerDeletion = nil
						}
						refs = append(refs, metav1.OwnerReference{APIVersion: "v1", Kind: "ConfigMap", Name: "stranger", UID: "stranger-uid", Controller: ptr.To(true)})
						u.SetOwnerReferences(refs)
						if sc := stranger(w); sc.Update(context.Background(), u) == nil {
							g.place(k, "crd-handed-over")
						}
					}})
				}
				if len(g.placed) > 0 && w.Store.Peek(simapi.ObjKey{Group: xrworld.XRDGVK.Group, Kind: xrworld.XRDGVK.Kind, Name: xrworld.XRDName}) != nil {
					acts = append(acts, sim.Action{Key: "user deletes the XRD", Weight: 1, Run: func() {
						x := &unstructured.Unstructured{}
						x.SetGroupVersionKind(xrworld.XRDGVK)
						x.SetName(xrworld.XRDName)
						if w.Direct.Delete(context.Background(), x) == nil {
							s.Probe("xrd-deleted")
						}
					}})
				}
			}
			return acts
		},
		Observe: func(w *xrworld.W, wl *xrworld.Workload) { g.observe() },
		Final: func(w *xrworld.W, wl *xrworld.Workload, quiet bool) {
			if !quiet {
				w.S.Probe("no-quiescence-while-blocked")
			}
		},
	}
	xrworld.Run(s, res, h)
}
