package c02

import (
	"context"
	"fmt"
	"time"

	extv1 "k8s.io/apiextensions-apiserver/pkg/apis/apiextensions/v1"
	metav1 "k8s.io/apimachinery/pkg/apis/meta/v1"
	"k8s.io/apimachinery/pkg/apis/meta/v1/unstructured"
	"k8s.io/apimachinery/pkg/runtime"
	"k8s.io/apimachinery/pkg/runtime/schema"

	xpv1 "github.com/crossplane/crossplane-runtime/apis/common/v1"

	pkgv1 "github.com/crossplane/crossplane/apis/pkg/v1"
	rbacdef "github.com/crossplane/crossplane/internal/controller/rbac/definition"
	"github.com/crossplane/crossplane/internal/controller/rbac/provider/binding"
	"github.com/crossplane/crossplane/internal/controller/rbac/provider/roles"

	"github.com/crossplane/crossplane/verifsim/kit"
	"github.com/crossplane/crossplane/verifsim/runner"
	"github.com/crossplane/crossplane/verifsim/sim"
	"github.com/crossplane/crossplane/verifsim/simapi"
	"github.com/crossplane/crossplane/verifsim/xrworld"
)

// runRBAC: the RBAC manager's derived ClusterRoles and ClusterRoleBindings.
func runRBAC(s *sim.Sim, res *runner.Result) {
	w := &kit.World{S: s, Res: res}
	w.Store = simapi.NewStore(kit.Scheme())
	if err := kit.ServeCore(w.Store); err != nil {
		res.Trouble = err.Error()
		return
	}
	kit.HookLog(s, w.Store)
	kit.SeedNames(s)
	direct := simapi.NewClient(w.Store, nil, nil, "user")
	sc := simapi.NewClient(w.Store, nil, nil, "stranger")
	proc := s.NewProc("rbac-manager")
	ctx := context.Background()
	g := newGuard(s, w.Store)
	tp := s.Tape
	kit.DrawFaults(s, []sim.Outcome{sim.ErrBefore, sim.ErrAfter, sim.Conflict, sim.CrashBefore, sim.CrashAfter})

	cm := &unstructured.Unstructured{Object: map[string]any{"apiVersion": "v1", "kind": "ConfigMap", "metadata": map[string]any{"name": "stranger", "namespace": "default"}}}
	_ = direct.Create(ctx, cm)
	xrd := xrworld.XRD(xrworld.Opts{Claims: tp.Next(2) == 1})
	if err := direct.Create(ctx, xrd); err != nil {
		res.Trouble = err.Error()
		return
	}
	rev := &pkgv1.ProviderRevision{ObjectMeta: metav1.ObjectMeta{Name: "prov-abc123", Labels: map[string]string{pkgv1.LabelParentPackage: "prov"}}}
	rev.Spec.DesiredState = pkgv1.PackageRevisionActive
	rev.Spec.Package = "xpkg.example.org/acme/prov:v1"
	rev.Spec.Revision = 1
	if err := direct.Create(ctx, rev); err != nil {
		res.Trouble = err.Error()
		return
	}
	crd := &extv1.CustomResourceDefinition{ObjectMeta: metav1.ObjectMeta{Name: "widgets.pk.example.org"}, Spec: extv1.CustomResourceDefinitionSpec{Group: "pk.example.org", Scope: extv1.ClusterScoped,
		Names:    extv1.CustomResourceDefinitionNames{Kind: "Widget", Plural: "widgets", ListKind: "WidgetList"},
		Versions: []extv1.CustomResourceDefinitionVersion{{Name: "v1", Served: true, Storage: true, Schema: &extv1.CustomResourceValidation{OpenAPIV3Schema: &extv1.JSONSchemaProps{Type: "object"}}}}}}
	_ = direct.Create(ctx, crd)
	rev.Status.ObjectRefs = []xpv1.TypedReference{{APIVersion: "apiextensions.k8s.io/v1", Kind: "CustomResourceDefinition", Name: crd.Name}}
	rev.Status.SetConditions(pkgv1.Healthy())
	_ = direct.Status().Update(ctx, rev)

	// the stranger takes derived names
	var names []string
	for _, cr := range rbacdef.RenderClusterRoles(xrd) {
		names = append(names, cr.GetName())
	}
	names = append(names, roles.SystemClusterRoleName(rev.Name))
	for _, n := range names {
		if tp.Next(2) == 0 {
			continue
		}
		u := mk("rbac.authorization.k8s.io/v1", "ClusterRole", "", n, map[string]any{"rules": []any{map[string]any{"apiGroups": []any{""}, "resources": []any{"pods"}, "verbs": []any{"get"}}}})
		if sc.Create(ctx, u) == nil {
			g.place(simapi.ObjKey{Group: "rbac.authorization.k8s.io", Kind: "ClusterRole", Name: n}, "rbac-cluster-role")
		}
	}
	if tp.Next(2) == 0 {
		n := roles.SystemClusterRoleName(rev.Name)
		u := mk("rbac.authorization.k8s.io/v1", "ClusterRoleBinding", "", n, map[string]any{"roleRef": map[string]any{"apiGroup": "rbac.authorization.k8s.io", "kind": "ClusterRole", "name": "view"}})
		if sc.Create(ctx, u) == nil {
			g.place(simapi.ObjKey{Group: "rbac.authorization.k8s.io", Kind: "ClusterRoleBinding", Name: n}, "rbac-cluster-role-binding")
		}
	}
	newProcess := func() {
		c := simapi.NewClient(w.Store, s, proc, "rbac-manager")
		m := kit.Mgr{C: c, S: w.Store.Scheme}
		w.Ctrls = []*kit.Controller{
			{Name: "rbac/definition", Proc: proc, Reconcile: rbacdef.NewReconciler(m).Reconcile, Keys: kit.KeysOfKind(w.Store, xrworld.XRDGVK.GroupKind()), Weight: 20},
			{Name: "rbac/provider-roles", Proc: proc, Reconcile: roles.NewReconciler(m).Reconcile, Keys: kit.KeysOfKind(w.Store, schema.GroupKind{Group: "pkg.crossplane.io", Kind: "ProviderRevision"}), Weight: 20},
			{Name: "rbac/provider-binding", Proc: proc, Reconcile: binding.NewReconciler(m).Reconcile, Keys: kit.KeysOfKind(w.Store, schema.GroupKind{Group: "pkg.crossplane.io", Kind: "ProviderRevision"}), Weight: 20},
		}
	}
	newProcess()
	res.Workload = map[string]any{"world": "rbac", "derived_names": names, "placed": fmt.Sprint(len(g.placed))}
	s.Phase = "chaos"
	chaos := 30 + tp.Next(120)
	for i := 0; i < chaos && len(s.Violations) == 0; i++ {
		acts := w.ReconcileActions()
		if proc.Dead {
			acts = append(acts, sim.Action{Key: "restart rbac-manager", Weight: 40, Run: func() { s.Restart(proc); newProcess() }})
		}
		for _, n := range names {
			n := n
			k := simapi.ObjKey{Group: "rbac.authorization.k8s.io", Kind: "ClusterRole", Name: n}
			if _, placed := g.placed[k]; placed || w.Store.Peek(k) == nil {
				continue
			}
			// somebody edits a derived role (the manager will want to put it right) ...
			acts = append(acts, sim.Action{Key: "somebody edits the rules of " + n, Weight: 1, Run: func() {
				u := &unstructured.Unstructured{Object: runtime.DeepCopyJSON(w.Store.Peek(k))}
				u.Object["rules"] = []any{map[string]any{"apiGroups": []any{""}, "resources": []any{"configmaps"}, "verbs": []any{"list"}}}
				_ = direct.Update(ctx, u)
			}})
			// ... and another owner takes the role over (the same object, now controlled by them)
			acts = append(acts, sim.Action{Key: "control of " + n + " passes to a stranger", Weight: 1, Run: func() {
				u := &unstructured.Unstructured{Object: runtime.DeepCopyJSON(w.Store.Peek(k))}
				u.Object["rules"] = []any{map[string]any{"apiGroups": []any{""}, "resources": []any{"pods"}, "verbs": []any{"get"}}}
				_ = unstructured.SetNestedSlice(u.Object, foreignOwner(), "metadata", "ownerReferences")
				if sc.Update(ctx, u) == nil {
					g.place(k, "rbac-cluster-role/taken-over")
				}
			}})
		}
		acts = append(acts, sim.Action{Key: "advance 1s", Weight: 1, Run: func() { s.Advance(time.Second) }})
		if !s.StepOnce(acts, 30) {
			break
		}
		g.observe()
	}
	s.Phase = "heal"
	if proc.Dead {
		s.Restart(proc)
		newProcess()
	}
	if !w.Heal(6, g.observe) {
		s.Probe("no-quiescence-while-blocked")
	}
	g.observe()
	res.StateHashes = append(res.StateHashes, w.Store.StateHash())
	s.Shutdown(proc)
}
