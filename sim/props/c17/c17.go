// Package c17 registers the C17 check (oracles live in pkgworld/c17.go).
package c17

import (
	"testing"

	"github.com/crossplane/crossplane/verifsim/pkgworld"
	"github.com/crossplane/crossplane/verifsim/runner"
	"github.com/crossplane/crossplane/verifsim/sim"
)

type prop struct{}

func init() { runner.Register(prop{}) }

func (prop) ID() string { return "C17" }

func (prop) Describe() runner.Description { return pkgworld.Describe("C17") }

func (prop) Run(t *testing.T, s *sim.Sim, res *runner.Result) { pkgworld.RunC17(s, res) }
