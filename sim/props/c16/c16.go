// Package c16 registers the C16 check (oracles live in pkgworld/run.go).
package c16

import (
	"testing"

	"github.com/crossplane/crossplane/verifsim/pkgworld"
	"github.com/crossplane/crossplane/verifsim/runner"
	"github.com/crossplane/crossplane/verifsim/sim"
)

type prop struct{}

func init() { runner.Register(prop{}) }

func (prop) ID() string { return "C16" }

func (prop) Describe() runner.Description { return pkgworld.Describe("C16") }

func (prop) Run(t *testing.T, s *sim.Sim, res *runner.Result) {
	pkgworld.Run(s, res, pkgworld.Mode{C16: true})
}
