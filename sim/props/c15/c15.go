// Package c15 registers the C15 check (oracles live in pkgworld/run.go).
package c15

import (
	"testing"

	"github.com/crossplane/crossplane/verifsim/pkgworld"
	"github.com/crossplane/crossplane/verifsim/runner"
	"github.com/crossplane/crossplane/verifsim/sim"
)

type prop struct{}

func init() { runner.Register(prop{}) }

func (prop) ID() string { return "C15" }

func (prop) Describe() runner.Description { return pkgworld.Describe("C15") }

func (prop) Run(t *testing.T, s *sim.Sim, res *runner.Result) {
	pkgworld.Run(s, res, pkgworld.Mode{C15: true})
}
