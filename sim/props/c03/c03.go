// Package c03 checks property C03: a failing composition pipeline is never
// destructive; garbage collection is exact (DESIGN.md §7 C03).
package c03

import (
	"context"
	"fmt"
	"sort"
	"strings"
	"testing"

	"google.golang.org/grpc/codes"
	"google.golang.org/grpc/status"
	"google.golang.org/protobuf/proto"
	metav1 "k8s.io/apimachinery/pkg/apis/meta/v1"
	"k8s.io/apimachinery/pkg/apis/meta/v1/unstructured"
	"k8s.io/apimachinery/pkg/types"
	"sigs.k8s.io/controller-runtime/pkg/reconcile"

	fnv1 "github.com/crossplane/crossplane/apis/apiextensions/fn/proto/v1"

	"github.com/crossplane/crossplane/verifsim/kit"
	"github.com/crossplane/crossplane/verifsim/runner"
	"github.com/crossplane/crossplane/verifsim/sim"
	"github.com/crossplane/crossplane/verifsim/simapi"
	"github.com/crossplane/crossplane/verifsim/simfn"
	"github.com/crossplane/crossplane/verifsim/xrworld"
)

type prop struct{}

func init() { runner.Register(prop{}) }

func (prop) ID() string { return "C03" }

func (prop) Describe() runner.Description {
	return runner.Description{
		World:       "W-xr: real XRD controller -> real XR reconciler (function pipeline and patch-and-transform composers) on the simulated API server",
		Real:        xrworld.RealComponents,
		Stub:        xrworld.StubComponents,
		Assumptions: kit.APIAssumptions,
		Rule:        "one case = one seeded run (pipelines of 1-3 scripted steps whose desired sets grow/shrink/drop, fatal results at a chosen step, never-stabilising requirements, transport errors, API errors on observation; P&T templates toggled); non-trivial = at least one fault fired or two tasks interleaved; distinct = distinct trace hash",
		FaultKinds:  []string{"err-before", "err-after", "conflict", "fn:err-before (transport Unavailable)", "scripted fatal result", "scripted never-stabilising requirements"},
	}
}

func composedKind(k simapi.ObjKey) bool {
	for _, g := range xrworld.ComposedGVKs {
		if g.Group == k.Group && g.Kind == k.Kind {
			return true
		}
	}
	return false
}

func (prop) Run(t *testing.T, s *sim.Sim, res *runner.Result) {
	var fn *simfn.Transport
	takenOver := false
	xrworld.Run(s, res, xrworld.Hooks{
		Opts: func(t *sim.Tape) xrworld.Opts {
			lag := t.Next(2) == 1
			return xrworld.Opts{FnFaults: true, LagComposed: lag, LagManual: lag && t.Next(2) == 1}
		},
		Params: xrworld.DrawParams{Fatal: true, Requirements: true, Anonymous: true, RepeatedResults: true, RequireOnce: true},
		Faults: []sim.Outcome{sim.ErrBefore, sim.ErrAfter, sim.Conflict, sim.Stale},
		Env: func(w *xrworld.W, wl *xrworld.Workload) []sim.Action {
			cs := w.ComposedObjects()
			if len(cs) == 0 {
				return nil
			}
			// the same object, but its controller reference now names another owner
			return []sim.Action{{Key: "control of a composed resource passes to a stranger", Weight: 2, Run: func() {
				c := cs[s.Tape.Next(len(cs))]
				u := c.Obj.DeepCopy()
				if c.OwnerUID == "stranger-uid" {
					return
				}
				t := true
				u.SetOwnerReferences([]metav1.OwnerReference{{APIVersion: "v1", Kind: "ConfigMap", Name: "stranger", UID: "stranger-uid", Controller: &t}})
				if w.Direct.Update(context.Background(), u) == nil {
					w.S.Probe("composed-resource-taken-over-by-a-stranger")
					takenOver = true
				}
			}}}
		},
		Final: func(w *xrworld.W, wl *xrworld.Workload, quiet bool) {
			if quiet {
				return
			}
			// while a composed resource of a still existing template is controlled by
			// somebody else its apply fails at every reconcile, and the templates after
			// it get a fresh generated name recorded every time: no fixpoint, and not
			// what this property is about
			if takenOver {
				w.S.Probe("no-quiescence-while-a-composed-resource-is-controlled-by-a-stranger")
				return
			}
			res.Inconclusive = "no-quiescence"
		},
		Setup: func(w *xrworld.W, wl *xrworld.Workload) error {
			ctx := context.Background()
			for i, n := range []string{"e0", "e1", "e2"} {
				u := &unstructured.Unstructured{Object: map[string]any{"apiVersion": "things.example.org/v1", "kind": "Extra",
					"metadata": map[string]any{"name": n, "labels": map[string]any{"grp": "x"}}, "spec": map[string]any{}}}
				if i < 2 {
					_ = unstructured.SetNestedField(u.Object, fmt.Sprintf("e%d", i+1), "spec", "next")
				}
				if err := w.Direct.Create(ctx, u); err != nil {
					return err
				}
			}
			for i := 1; i <= 7; i++ {
				u := &unstructured.Unstructured{Object: map[string]any{"apiVersion": "things.example.org/v1", "kind": "Extra",
					"metadata": map[string]any{"name": fmt.Sprintf("page%d", i), "labels": map[string]any{"page": fmt.Sprint(i)}}, "spec": map[string]any{"page": int64(i)}}}
				if err := w.Direct.Create(ctx, u); err != nil {
					return err
				}
			}
			w.OnFnTransport = func(tr *simfn.Transport) { fn = tr }
			fn = w.Fn
			w.OnXRDone = func(key types.NamespacedName, t *sim.Task, startSeq int, r reconcile.Result, err error) {
				judge(w, fn, key, t, startSeq)
			}
			return nil
		},
	})
}

// judge evaluates one finished (or killed) XR reconcile from the write log and
// the recorded function calls.
func judge(w *xrworld.W, fn *simfn.Transport, key types.NamespacedName, t *sim.Task, startSeq int) {
	st := w.Store
	var mine []*simapi.LogEntry
	for _, e := range st.Log[startSeq:] {
		if e.TaskID == t.ID {
			mine = append(mine, e)
		}
	}
	var calls []*simfn.Call
	for _, c := range fn.Calls {
		if c.TaskID == t.ID {
			calls = append(calls, c)
		}
	}
	xrKey := simapi.ObjKey{Group: xrworld.XRGVK.Group, Kind: xrworld.XRGVK.Kind, Name: key.Name}
	xrStart := st.StateAt(startSeq, xrKey)
	if xrStart == nil {
		return
	}
	xrUID := (&unstructured.Unstructured{Object: xrStart}).GetUID()

	// which revision did this reconcile compose from? (the one the XR references
	// after the reconcile's own revision selection)
	xrNow := st.Peek(xrKey)
	if xrNow == nil {
		xrNow = xrStart
	}
	revName, _, _ := unstructured.NestedString(xrNow, "spec", "compositionRevisionRef", "name")
	rev := st.Peek(simapi.ObjKey{Group: xrworld.RevGVK.Group, Kind: xrworld.RevGVK.Kind, Name: revName})
	pipeline := len(calls) > 0
	if rev != nil {
		m, _, _ := unstructured.NestedString(rev, "spec", "mode")
		pipeline = m == "Pipeline"
	}

	// ---- what did the pipeline do?
	failure := ""
	perStep := map[string]int{}
	byStep := map[string][]*simfn.Call{}
	var stepOrder []string
	var last *simfn.Call
	for _, c := range calls {
		if c.Err != nil {
			if status.Code(c.Err) == codes.Unimplemented && !c.Beta {
				continue // v1 -> v1beta1 fallback, not a failure
			}
			failure = "function-call-error"
			continue
		}
		step, _ := c.Req.GetInput().AsMap()["step"].(string)
		perStep[step]++
		if len(byStep[step]) == 0 {
			stepOrder = append(stepOrder, step)
		}
		byStep[step] = append(byStep[step], c)
		for _, r := range c.Rsp.GetResults() {
			if r.GetSeverity() == fnv1.Severity_SEVERITY_FATAL {
				failure = "fatal-result"
			}
		}
		last = c
	}
	for step, n := range perStep {
		if n > 6 {
			w.S.Violate("C03/unbounded-requirement-rounds", fmt.Sprintf("step %s was called %d times in one reconcile", step, n))
		}
		if n == 6 && failure == "" {
			failure = "requirements-never-stabilised"
		}
	}
	// requirement stabilisation, judged on the recorded responses: a step's run
	// ends successfully only when its last two responses carry equal
	// requirements (or its only response carries none).
	for i, step := range stepOrder {
		cs := byStep[step]
		n := len(cs)
		stable := (n == 1 && len(cs[0].Rsp.GetRequirements().GetExtraResources()) == 0) ||
			(n >= 2 && proto.Equal(cs[n-1].Rsp.GetRequirements(), cs[n-2].Rsp.GetRequirements()))
		fatal := false
		for _, r := range cs[n-1].Rsp.GetResults() {
			fatal = fatal || r.GetSeverity() == fnv1.Severity_SEVERITY_FATAL
		}
		if stable || fatal {
			continue
		}
		if failure == "" {
			failure = "requirements-never-stabilised"
		}
		if i < len(stepOrder)-1 {
			w.S.Violate("C03/unstable-requirements-accepted", fmt.Sprintf("reconcile %s: step %s was left after %d call(s) although its requirements had not stopped changing, and the pipeline went on", t.Label, step, n))
		}
	}
	for _, e := range mine {
		if e.Injected == "" {
			continue
		}
		read := e.Verb == "get" || e.Verb == "list"
		if !read {
			continue
		}
		if composedKind(e.Key) || e.Key.Kind == "Secret" {
			if failure == "" {
				failure = "observe-error"
			}
		}
		if e.Key.Kind == "FunctionRevision" || e.Key.Kind == "Extra" {
			if failure == "" {
				failure = "function-call-error"
			}
		}
	}

	refsBefore := refList(xrStart)
	// ---- R1: a failed pipeline is not destructive
	if pipeline && failure != "" {
		w.S.Probe("failed-pipeline/" + failure)
		for _, e := range mine {
			if e.Injected != "" || e.DryRun {
				continue
			}
			if composedKind(e.Key) && e.Verb != "get" && e.Verb != "list" {
				w.S.Violate("C03/destructive-failed-pipeline/"+failure, fmt.Sprintf("reconcile %s failed (%s) but issued %s on composed resource %s", t.Label, failure, e.Verb, e.Key))
			}
			if e.Key == xrKey && e.After != nil && e.Changed {
				if refList(e.After) != refList(e.Before) {
					w.S.Violate("C03/refs-changed-by-failed-pipeline/"+failure, fmt.Sprintf("reconcile %s failed (%s) but changed spec.resourceRefs from [%s] to [%s]", t.Label, failure, refList(e.Before), refList(e.After)))
				}
			}
		}
	}
	_ = refsBefore

	// ---- final desired names (when the reconcile got that far)
	var desired map[string]bool
	if pipeline {
		reachedRefs := false
		for _, e := range mine {
			if e.Key == xrKey && e.Verb == "apply" {
				reachedRefs = true
			}
		}
		if last != nil && failure == "" && (reachedRefs || t.Normal) {
			desired = map[string]bool{}
			for n := range last.Rsp.GetDesired().GetResources() {
				desired[n] = true
			}
			// the last call must belong to the last step of the pipeline
			steps, _, _ := unstructured.NestedSlice(rev, "spec", "pipeline")
			if len(steps) > 0 {
				lastStep, _ := steps[len(steps)-1].(map[string]any)["step"].(string)
				if s, _ := last.Req.GetInput().AsMap()["step"].(string); s != lastStep {
					desired = nil
				}
			}
		}
	} else if rev != nil {
		desired = map[string]bool{}
		tmpls, _, _ := unstructured.NestedSlice(rev, "spec", "resources")
		for _, tm := range tmpls {
			if n, ok := tm.(map[string]any)["name"].(string); ok {
				desired[n] = true
			}
		}
		// the revision reference may have been moved by this very reconcile; only
		// judge when the reconcile composed from the revision it ended with
		for _, e := range mine {
			if e.Key == xrKey && e.Changed {
				b, _, _ := unstructured.NestedString(e.Before, "spec", "compositionRevisionRef", "name")
				a, _, _ := unstructured.NestedString(e.After, "spec", "compositionRevisionRef", "name")
				if a != b && a != revName {
					desired = nil
				}
			}
		}
	}

	// P&T: what a template composes is also recognisable by its content (the
	// workload's bases carry spec.tag), whatever its name or annotation says
	desiredTags := map[string]bool{}
	if !pipeline && rev != nil && desired != nil {
		tmpls, _, _ := unstructured.NestedSlice(rev, "spec", "resources")
		for _, tm := range tmpls {
			if tag, _, _ := unstructured.NestedString(tm.(map[string]any), "base", "spec", "tag"); tag != "" {
				desiredTags[tag] = true
			}
		}
	}
	// ---- R3: a still-desired resource is never deleted (or stripped of its labels)
	deleted := map[string]bool{}
	for _, e := range mine {
		if e.Injected != "" || e.DryRun || !composedKind(e.Key) || e.Before == nil {
			continue
		}
		bu := &unstructured.Unstructured{Object: e.Before}
		rn := bu.GetAnnotations()["crossplane.io/composition-resource-name"]
		if e.Verb == "delete" && e.Err == nil {
			deleted[e.Key.String()] = true
			if tag, _, _ := unstructured.NestedString(e.Before, "spec", "tag"); desiredTags[tag] && controlledBy(bu, xrUID) && failure == "" {
				w.S.Violate("C03/deleted-still-desired/by-template-content", fmt.Sprintf("reconcile %s deleted %s although the revision it composed from still has the template that composes it (spec.tag %q)", t.Label, e.Key, tag))
			}
			if desired != nil && desired[rn] && controlledBy(bu, xrUID) {
				w.S.Violate("C03/deleted-still-desired", fmt.Sprintf("reconcile %s deleted %s (resource %q) although it is in the final desired state", t.Label, e.Key, rn))
			}
			if !referenced(xrStart, bu) && !referenced(xrNow, bu) {
				w.S.Violate("C03/deleted-unreferenced", fmt.Sprintf("reconcile %s deleted %s which this XR never referenced", t.Label, e.Key))
			}
			if c := controllerUID(bu); c != "" && c != xrUID {
				w.S.Violate("C03/deleted-foreign", fmt.Sprintf("reconcile %s deleted %s which another owner controls", t.Label, e.Key))
			}
		}
		if e.Verb == "update" && e.Err == nil && e.After != nil && desired != nil && desired[rn] && controlledBy(bu, xrUID) {
			au := &unstructured.Unstructured{Object: e.After}
			if bu.GetLabels()["crossplane.io/composite"] != "" && au.GetLabels()["crossplane.io/composite"] == "" {
				w.S.Violate("C03/stripped-still-desired", fmt.Sprintf("reconcile %s stripped the composite labels of %s (resource %q) although it is still desired", t.Label, e.Key, rn))
			}
		}
	}

	// ---- R2: on success the deleted set is exact
	success := false
	for _, e := range mine {
		if e.Key == xrKey && e.Verb == "update-status" && e.Err == nil && e.After != nil && t.Normal {
			success = synced(e.After)
		}
	}
	// P&T: while a composed resource still lacks its template's name (it was
	// composed from an anonymous template and the composition has just been
	// migrated to named ones) the composer associates resources and templates by
	// position and does not garbage collect in that reconcile
	byOrder := false
	if !pipeline {
		for _, e := range mine {
			if e.Read && e.Verb == "get" && composedKind(e.Key) && e.After != nil && e.Err == nil &&
				(&unstructured.Unstructured{Object: e.After}).GetAnnotations()["crossplane.io/composition-resource-name"] == "" {
				byOrder = true
			}
		}
	}
	if byOrder {
		w.S.Probe("associated-by-order")
	}
	if success && desired != nil && failure == "" && !byOrder {
		w.S.Probe("successful-compose")
		var missing []string
		for _, r := range refObjs(xrStart) {
			k := simapi.ObjKey{Group: strings.Split(r.av, "/")[0], Kind: r.kind, Name: r.name}
			obj := st.StateAt(startSeq, k)
			if obj == nil {
				continue
			}
			ou := &unstructured.Unstructured{Object: obj}
			rn := ou.GetAnnotations()["crossplane.io/composition-resource-name"]
			if c := controllerUID(ou); c != "" && c != xrUID {
				continue
			}
			if rn == "" || desired[rn] || ou.GetDeletionTimestamp() != nil {
				continue
			}
			if now := st.Peek(k); now != nil {
				// control passed to another owner while this reconcile ran: not its to delete
				if c := controllerUID(&unstructured.Unstructured{Object: now}); c != "" && c != xrUID {
					w.S.Probe("undesired-resource-taken-over-meanwhile")
					continue
				}
			}
			if !deleted[k.String()] && st.Peek(k) != nil {
				missing = append(missing, k.String())
			}
		}
		if len(missing) > 0 {
			sort.Strings(missing)
			w.S.Violate("C03/gc-missed-undesired", fmt.Sprintf("reconcile %s succeeded but did not delete previously composed, no longer desired resources %v", t.Label, missing))
		} else if len(deleted) > 0 {
			w.S.Probe("exact-gc-with-deletes")
		}
	}
}

type ref struct{ av, kind, name string }

func refObjs(xr map[string]any) []ref {
	var out []ref
	refs, _, _ := unstructured.NestedSlice(xr, "spec", "resourceRefs")
	for _, r := range refs {
		m, _ := r.(map[string]any)
		av, _ := m["apiVersion"].(string)
		k, _ := m["kind"].(string)
		n, _ := m["name"].(string)
		out = append(out, ref{av, k, n})
	}
	return out
}

func refList(xr map[string]any) string {
	var s []string
	for _, r := range refObjs(xr) {
		s = append(s, r.av+"/"+r.kind+"/"+r.name)
	}
	return strings.Join(s, ",")
}

func referenced(xr map[string]any, u *unstructured.Unstructured) bool {
	for _, r := range refObjs(xr) {
		if r.kind == u.GetKind() && r.name == u.GetName() {
			return true
		}
	}
	return false
}

func controllerUID(u *unstructured.Unstructured) types.UID {
	for _, o := range u.GetOwnerReferences() {
		if o.Controller != nil && *o.Controller {
			return o.UID
		}
	}
	return ""
}

func controlledBy(u *unstructured.Unstructured, uid types.UID) bool { return controllerUID(u) == uid }

func synced(xr map[string]any) bool {
	conds, _, _ := unstructured.NestedSlice(xr, "status", "conditions")
	for _, c := range conds {
		m, _ := c.(map[string]any)
		if m["type"] == "Synced" {
			return m["status"] == "True"
		}
	}
	return false
}
