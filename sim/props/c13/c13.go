// Package c13 checks property C13: dynamic controllers and watches stay
// consistent under any interleaving (DESIGN.md §7 C13, world W-engine).
package c13

import (
	"context"
	"fmt"
	"sort"
	"strings"
	"sync"
	"testing"
	"time"

	"github.com/anishathalye/porcupine"
	"github.com/go-logr/logr"
	metav1 "k8s.io/apimachinery/pkg/apis/meta/v1"
	"k8s.io/apimachinery/pkg/apis/meta/v1/unstructured"
	kruntime "k8s.io/apimachinery/pkg/runtime"
	"k8s.io/apimachinery/pkg/runtime/schema"
	toolscache "k8s.io/client-go/tools/cache"
	"k8s.io/client-go/util/workqueue"
	"sigs.k8s.io/controller-runtime/pkg/cache"
	"sigs.k8s.io/controller-runtime/pkg/client"
	kcontroller "sigs.k8s.io/controller-runtime/pkg/controller"
	"sigs.k8s.io/controller-runtime/pkg/handler"
	"sigs.k8s.io/controller-runtime/pkg/manager"
	"sigs.k8s.io/controller-runtime/pkg/reconcile"
	"sigs.k8s.io/controller-runtime/pkg/source"

	"github.com/crossplane/crossplane-runtime/pkg/resource"

	v1 "github.com/crossplane/crossplane/apis/apiextensions/v1"
	"github.com/crossplane/crossplane/internal/controller/apiextensions/composite/watch"
	"github.com/crossplane/crossplane/internal/engine"
	"github.com/crossplane/crossplane/internal/simsync"

	"github.com/crossplane/crossplane/verifsim/kit"
	"github.com/crossplane/crossplane/verifsim/runner"
	"github.com/crossplane/crossplane/verifsim/sim"
)

type prop struct{}

func init() { runner.Register(prop{}) }

func (prop) ID() string { return "C13" }

func (prop) Describe() runner.Description {
	return runner.Description{
		World: "W-engine: real engine.ControllerEngine, StoppableSource, InformerTrackingCache and watch.GarbageCollector; 2-4 client tasks; every lock acquisition and every informer call is a scheduling point",
		Real:  []string{"engine.ControllerEngine (Start/Stop/IsRunning/StartWatches/StopWatches/GetWatches)", "engine.StoppableSource / EventHandler", "engine.InformerTrackingCache", "watch.GarbageCollector (GarbageCollectWatchesNow)", "their sync.RWMutex discipline (rewritten to scheduler-visible simsync locks by build-time overlay of the repo's current files)"},
		Stub:  []string{"controller-runtime controller (engine.WithNewControllerFn: Watch calls src.Start like a started controller; Start blocks until cancelled)", "controller-runtime cache (fake informers that record handler registrations per controller and can be removed)", "manager (Elected, GetScheme)", "XR list served to the garbage collector"},
		Assumptions: []string{
			"simsync.RWMutex grants exactly when Go's sync.RWMutex would (writer preference included); Unlock is immediate",
			"a started controller-runtime controller's Watch calls Source.Start synchronously with the controller's context",
			"informer handler registration/removal is atomic per call; removing an informer drops its registrations",
			"goroutine scheduling is decided by the tape at lock and informer calls only; code between two such points runs atomically (sound for deadlock and for properties over lock-protected state; unsynchronised data races are left to the race-detector build of the same harness in the thorough tier)",
		},
		Rule:       "one case = one seeded run (2-4 client tasks x 3-8 engine operations over 2 controllers and 3 kinds, interleaved at every lock/informer call by the tape); non-trivial = at least two tasks interleaved; distinct = distinct trace hash",
		FaultKinds: []string{"informer removal (watch lost with its informer)"},
		RaceTier:   true,
	}
}

var (
	kinds = []schema.GroupVersionKind{
		{Group: "example.org", Version: "v1", Kind: "XThing"},
		{Group: "things.example.org", Version: "v1", Kind: "Thing"},
		{Group: "things.example.org", Version: "v1", Kind: "Gadget"},
	}
	ctrlNames = []string{"composite/a", "composite/b"}
)

// ---------------------------------------------------------------- fakes

type fakeMgr struct {
	manager.Manager
	elected chan struct{}
	scheme  *kruntime.Scheme
}

func (m *fakeMgr) Elected() <-chan struct{}    { return m.elected }
func (m *fakeMgr) GetScheme() *kruntime.Scheme { return m.scheme }
func (m *fakeMgr) GetLogger() logr.Logger      { return logr.Discard() }

type ctrlKey struct{}

// fakeCtrl is the controller-runtime controller stub.
type fakeCtrl struct {
	w       *world
	id      int
	name    string
	mu      sync.Mutex
	ctx     context.Context
	started bool
	queue   workqueue.TypedRateLimitingInterface[reconcile.Request]
}

func (c *fakeCtrl) context() (context.Context, bool) {
	c.mu.Lock()
	defer c.mu.Unlock()
	return c.ctx, c.started
}

func (c *fakeCtrl) Reconcile(context.Context, reconcile.Request) (reconcile.Result, error) {
	return reconcile.Result{}, nil
}
func (c *fakeCtrl) GetLogger() logr.Logger { return logr.Discard() }
func (c *fakeCtrl) Start(ctx context.Context) error {
	<-ctx.Done()
	return nil
}

// Watch does what a started controller does: start the source right away with
// the controller's context and queue.
func (c *fakeCtrl) Watch(src source.TypedSource[reconcile.Request]) error {
	ctx, _ := c.context()
	return src.Start(context.WithValue(ctx, ctrlKey{}, c), c.queue)
}

type reg struct {
	id   int
	ctrl *fakeCtrl
	gvk  schema.GroupVersionKind
}

func (r *reg) HasSynced() bool { return true }

type fakeInformer struct {
	w         *world
	gvk       schema.GroupVersionKind
	regs      map[int]*reg
	gone      bool
	createdBy *fakeCtrl // the controller whose source (re)started this informer
}

// boundInformer is what GetInformer hands out: the shared informer plus the
// controller on whose behalf it was fetched.
type boundInformer struct {
	inf  *fakeInformer
	ctrl *fakeCtrl
}

func (b *boundInformer) AddEventHandler(toolscache.ResourceEventHandler) (toolscache.ResourceEventHandlerRegistration, error) {
	w := b.inf.w
	w.yield("inf", "add-handler "+b.inf.gvk.Kind)
	w.nreg++
	r := &reg{id: w.nreg, ctrl: b.ctrl, gvk: b.inf.gvk}
	if !b.inf.gone {
		b.inf.regs[r.id] = r
	}
	return r, nil
}
func (b *boundInformer) AddEventHandlerWithResyncPeriod(h toolscache.ResourceEventHandler, _ time.Duration) (toolscache.ResourceEventHandlerRegistration, error) {
	return b.AddEventHandler(h)
}
func (b *boundInformer) RemoveEventHandler(h toolscache.ResourceEventHandlerRegistration) error {
	w := b.inf.w
	if err := w.yieldErr("remove-handler " + b.inf.gvk.Kind); err != nil {
		return err
	}
	if r, ok := h.(*reg); ok {
		delete(b.inf.regs, r.id)
	}
	return nil
}
func (b *boundInformer) AddIndexers(toolscache.Indexers) error { return nil }
func (b *boundInformer) HasSynced() bool                       { return true }
func (b *boundInformer) IsStopped() bool                       { return b.inf.gone }

type fakeCache struct {
	cache.Cache
	w    *world
	infs map[schema.GroupVersionKind]*fakeInformer
}

func (c *fakeCache) get(ctx context.Context, gvk schema.GroupVersionKind) (cache.Informer, error) {
	if err := c.w.yieldErr("get-informer " + gvk.Kind); err != nil {
		return nil, err
	}
	ctrl, _ := ctx.Value(ctrlKey{}).(*fakeCtrl)
	inf := c.infs[gvk]
	if inf == nil {
		inf = &fakeInformer{w: c.w, gvk: gvk, regs: map[int]*reg{}, createdBy: ctrl}
		c.infs[gvk] = inf
	}
	return &boundInformer{inf: inf, ctrl: ctrl}, nil
}
func (c *fakeCache) GetInformer(ctx context.Context, obj client.Object, _ ...cache.InformerGetOption) (cache.Informer, error) {
	return c.get(ctx, obj.GetObjectKind().GroupVersionKind())
}
func (c *fakeCache) GetInformerForKind(ctx context.Context, gvk schema.GroupVersionKind, _ ...cache.InformerGetOption) (cache.Informer, error) {
	return c.get(ctx, gvk)
}
func (c *fakeCache) RemoveInformer(_ context.Context, obj client.Object) error {
	gvk := obj.GetObjectKind().GroupVersionKind()
	c.w.yield("inf", "remove-informer "+gvk.Kind)
	c.w.removedAt[gvk] = c.w.tick()
	if inf := c.infs[gvk]; inf != nil {
		inf.gone = true
		inf.regs = map[int]*reg{}
		delete(c.infs, gvk)
	}
	return nil
}

// xrLister is the cached client handed to the watch garbage collector.
type xrLister struct {
	client.Client
	w *world
}

func (l *xrLister) List(_ context.Context, list client.ObjectList, _ ...client.ListOption) error {
	l.w.yield("api", "list XThing")
	ul := list.(*unstructured.UnstructuredList)
	ul.Items = nil
	for i, refs := range l.w.xrRefs {
		u := unstructured.Unstructured{Object: map[string]any{"apiVersion": "example.org/v1", "kind": "XThing", "metadata": map[string]any{"name": fmt.Sprintf("x%d", i)}}}
		if l.w.xrTerminating[i] {
			// being deleted (a finalizer keeps it): it still exists and still references its resources
			u.SetFinalizers([]string{"composite.apiextensions.crossplane.io"})
			ts := metav1.NewTime(time.Date(2000, 1, 1, 0, 0, 0, 0, time.UTC))
			u.SetDeletionTimestamp(&ts)
		}
		var rs []any
		for _, k := range refs {
			rs = append(rs, map[string]any{"apiVersion": k.GroupVersion().String(), "kind": k.Kind, "name": "n"})
		}
		_ = unstructured.SetNestedSlice(u.Object, rs, "spec", "resourceRefs")
		ul.Items = append(ul.Items, u)
	}
	return nil
}

// gcEngine adapts the real engine to watch.ControllerEngine.
type gcEngine struct {
	*engine.ControllerEngine
	l *xrLister
}

func (g gcEngine) GetCached() client.Client   { return g.l }
func (g gcEngine) GetUncached() client.Client { return g.l }

// ---------------------------------------------------------------- world

type opRec struct {
	client int
	in     opIn
	out    opOut
	call   int64
	ret    int64
}

type opIn struct {
	Op   string
	Ctrl string
}

type opOut struct {
	Running bool
	Err     bool
}

type world struct {
	s             *sim.Sim
	proc          *sim.Proc
	eng           *engine.ControllerEngine
	cache         *fakeCache
	mgr           *fakeMgr
	ctrls         []*fakeCtrl
	nreg          int
	clock         int64
	hist          []opRec
	xrRefs        [][]schema.GroupVersionKind
	xrTerminating map[int]bool
	removing      map[string]int   // controller name -> Stop/StopWatches/collector calls in progress
	removedUntil  map[string]int64 // controller name -> tick at which the last of them returned
	endCh         chan struct{}
	wait          map[*simsync.RWMutex]int
	names         map[*simsync.RWMutex]string
	quiet         bool // sequential probe phase: no yields
	removedAt     map[schema.GroupVersionKind]int64
}

func (w *world) yield(seam, key string) {
	if w.quiet {
		return
	}
	w.s.Yield(w.proc, seam, key, nil, nil)
}

var infMenu = []sim.Outcome{sim.ErrBefore}

// yieldErr is a yield point at which the informer machinery may fail.
func (w *world) yieldErr(key string) error {
	if w.quiet {
		return nil
	}
	if o, _ := w.s.Yield(w.proc, "inf", key, infMenu, nil); o == sim.ErrBefore {
		return fmt.Errorf("fake informer: injected failure (%s)", key)
	}
	return nil
}

// Acquire implements simsync.Hooks.
func (w *world) Acquire(m *simsync.RWMutex, write bool) {
	if w.quiet {
		if write {
			m.Writer = true
		} else {
			m.Readers++
		}
		return
	}
	name := w.names[m]
	if name == "" {
		name = fmt.Sprintf("mx%d", len(w.names)+1)
		w.names[m] = name
	}
	if write {
		w.wait[m]++
		defer func() { w.wait[m]-- }()
		w.s.Yield(w.proc, "lock", "Lock "+name, nil, func() bool { return !m.Writer && m.Readers == 0 })
		m.Writer = true
		return
	}
	w.s.Yield(w.proc, "lock", "RLock "+name, nil, func() bool { return !m.Writer && w.wait[m] == 0 })
	m.Readers++
}

// Release implements simsync.Hooks: right after an unlock is a place where the
// goroutine may be preempted (what it read under the lock can be stale by the
// time it acts on it).
func (w *world) Release(m *simsync.RWMutex, _ bool) {
	if w.quiet {
		return
	}
	w.s.Yield(w.proc, "lock", "after unlock "+w.names[m], nil, nil)
}

// Point implements simsync.Hooks.
func (w *world) Point(string) {}

func (w *world) newController(name string, _ manager.Manager, _ kcontroller.Options) (kcontroller.Controller, error) {
	c := &fakeCtrl{w: w, id: len(w.ctrls) + 1, name: name, ctx: context.Background()}
	w.ctrls = append(w.ctrls, c)
	return &startCapture{fakeCtrl: c}, nil
}

// startCapture records the context the engine runs the controller with: that
// is the context a real controller hands to its sources.
type startCapture struct{ *fakeCtrl }

func (c *startCapture) Start(ctx context.Context) error {
	c.fakeCtrl.mu.Lock()
	c.fakeCtrl.ctx = ctx
	c.fakeCtrl.started = true
	c.fakeCtrl.mu.Unlock()
	select {
	case <-ctx.Done():
	case <-c.fakeCtrl.w.endCh:
		// the run is over and nothing cancelled this controller: reported by
		// the final check; let the goroutine go so that the bubble can end
	}
	return nil
}

func watchFor(gvk schema.GroupVersionKind, wt engine.WatchType) engine.Watch {
	u := &unstructured.Unstructured{}
	u.SetGroupVersionKind(gvk)
	return engine.WatchFor(u, wt, &handler.EnqueueRequestForObject{})
}

func (prop) Run(t *testing.T, s *sim.Sim, res *runner.Result) {
	w := &world{s: s, proc: s.NewProc("core"), wait: map[*simsync.RWMutex]int{}, names: map[*simsync.RWMutex]string{}, removedAt: map[schema.GroupVersionKind]int64{}, xrTerminating: map[int]bool{}, endCh: make(chan struct{}), removing: map[string]int{}, removedUntil: map[string]int64{}}
	elected := make(chan struct{})
	close(elected)
	w.mgr = &fakeMgr{elected: elected, scheme: kit.Scheme()}
	w.cache = &fakeCache{w: w, infs: map[schema.GroupVersionKind]*fakeInformer{}}
	infs := engine.TrackInformers(w.cache, w.mgr.scheme)
	lister := &xrLister{w: w}
	w.eng = engine.New(w.mgr, infs, lister, lister)
	simsync.Hook = w
	defer func() { simsync.Hook = nil }()

	tp := s.Tape
	// informer failures: off in most runs, rare otherwise
	s.Cfg.Kinds = map[sim.Outcome]bool{sim.ErrBefore: true}
	s.Cfg.Permille = []int{0, 0, 25, 80}[tp.Next(4)]
	nClients := 2 + tp.Next(3)
	// XRs seen by the collector: each references a subset of the composed kinds
	for i := 0; i < 1+tp.Next(2); i++ {
		var refs []schema.GroupVersionKind
		for _, k := range kinds[1:] {
			if tp.Next(2) == 1 {
				refs = append(refs, k)
			}
		}
		w.xrRefs = append(w.xrRefs, refs)
		if tp.Next(3) == 0 {
			w.xrTerminating[i] = true
		}
	}
	var descr []string
	for c := 0; c < nClients; c++ {
		c := c
		n := 3 + tp.Next(6)
		var ops []func()
		var names []string
		for i := 0; i < n; i++ {
			name := ctrlNames[tp.Next(len(ctrlNames))]
			k := kinds[tp.Next(len(kinds))]
			k2 := kinds[tp.Next(len(kinds))]
			wt := engine.WatchTypeComposedResource
			if k == kinds[0] {
				wt = engine.WatchTypeCompositeResource
			}
			wt2 := engine.WatchTypeComposedResource
			if k2 == kinds[0] {
				wt2 = engine.WatchTypeCompositeResource
			}
			switch tp.Next(10) {
			case 0, 1:
				names = append(names, "Start "+name)
				ops = append(ops, func() {
					call := w.tick()
					_ = w.eng.Start(name, engine.WithNewControllerFn(w.newController))
					w.record(c, opIn{"start", name}, opOut{}, call)
				})
			case 2:
				names = append(names, "Stop "+name)
				ops = append(ops, func() {
					call := w.tick()
					w.removing[name]++
					err := w.eng.Stop(context.Background(), name)
					w.removing[name]--
					w.removedUntil[name] = w.tick()
					w.record(c, opIn{"stop", name}, opOut{Err: err != nil}, call)
				})
			case 3:
				names = append(names, "IsRunning "+name)
				ops = append(ops, func() {
					call := w.tick()
					r := w.eng.IsRunning(name)
					w.record(c, opIn{"isrunning", name}, opOut{Running: r}, call)
				})
			case 4, 5, 6:
				names = append(names, fmt.Sprintf("StartWatches %s %s,%s", name, k.Kind, k2.Kind))
				ops = append(ops, func() {
					began := w.tick()
					if err := w.eng.StartWatches(name, watchFor(k, wt), watchFor(k2, wt2)); err == nil {
						w.afterStartWatches(name, began, k, k2)
					}
				})
			case 7:
				names = append(names, fmt.Sprintf("StopWatches %s %s", name, k.Kind))
				ops = append(ops, func() {
					w.removing[name]++
					_, _ = w.eng.StopWatches(context.Background(), name, engine.WatchID{Type: wt, GVK: k})
					w.removing[name]--
					w.removedUntil[name] = w.tick()
				})
			case 8:
				names = append(names, "GetWatches/GC "+name)
				ops = append(ops, func() {
					_, _ = w.eng.GetWatches(name)
					gc := watch.NewGarbageCollector(name, resource.CompositeKind(kinds[0]), gcEngine{w.eng, lister})
					w.removing[name]++
					_ = gc.GarbageCollectWatchesNow(context.Background())
					w.removing[name]--
					w.removedUntil[name] = w.tick()
				})
			case 9:
				names = append(names, "RemoveInformer "+k.Kind)
				ops = append(ops, func() {
					u := &unstructured.Unstructured{}
					u.SetGroupVersionKind(k)
					_ = infs.RemoveInformer(context.Background(), u)
					s.Faults["informer-removed"]++
				})
			}
		}
		descr = append(descr, fmt.Sprintf("client%d: %s", c, strings.Join(names, "; ")))
		ops2, c := ops, c
		s.Go(w.proc, fmt.Sprintf("client%d", c), func(ctx context.Context) {
			w.yield("start", "begin")
			for i, op := range ops2 {
				s.Logf("  %s", strings.Split(descr[c], "; ")[i])
				op()
				w.yield("op", "next")
			}
		}, nil)
	}
	res.Workload = descr

	s.Phase = "chaos"
	steps := 0
	for ; steps < 4000; steps++ {
		if !s.StepOnce(nil, 1) {
			break
		}
	}
	s.Wait()
	if live := s.LiveTasks(); live > 0 {
		var waits []string
		for _, r := range s.Pending() {
			en := r.Enabled == nil || r.Enabled()
			waits = append(waits, fmt.Sprintf("%s waits for %s (grantable=%v)", r.Task.Label, r.Key, en))
		}
		sort.Strings(waits)
		if steps >= 4000 {
			res.Inconclusive = "step-budget"
		} else {
			s.Violate("C13/deadlock", fmt.Sprintf("%d task(s) blocked with no enabled choice: %s", live, strings.Join(waits, "; ")))
		}
		s.Shutdown(w.proc)
		w.stopAll()
		return
	}

	// ---- oracles over the history and the quiescent state
	s.Phase = "probe"
	w.quiet = true
	w.checkLinearizable()
	w.checkQuiescent(infs)
	w.checkForgotten()
	if len(s.Violations) == 0 {
		w.probeReestablish(infs)
		w.probeCollector(lister)
	}
	w.stopAll()
	s.Shutdown(w.proc)
}

// liveCtrl returns the controller object currently serving name (started, not cancelled).
func (w *world) liveCtrl(name string) *fakeCtrl {
	var cur *fakeCtrl
	for _, c := range w.ctrls {
		if c.name == name {
			cur = c
		}
	}
	if cur == nil {
		return nil
	}
	if ctx, _ := cur.context(); ctx.Err() != nil {
		return nil
	}
	return cur
}

// afterStartWatches: a successful start request leaves a live event handler for
// every requested kind (this is what re-establishes a watch lost with its
// informer) - unless the controller was stopped or the informer removed again
// in the meantime.
func (w *world) afterStartWatches(name string, began int64, ks ...schema.GroupVersionKind) {
	cur := w.liveCtrl(name)
	if cur == nil {
		return
	}
	// a Stop, StopWatches or collector run on this controller that overlapped
	// this request (or ran between its critical section and its return) may
	// have taken the watch away again, legitimately
	if w.removing[name] > 0 || w.removedUntil[name] >= began {
		w.s.Probe("start-watches-overlapped-a-remover")
		return
	}
	regs := w.regsOf()
	for _, k := range ks {
		inf := w.cache.infs[k]
		if w.removedAt[k] >= began {
			// the informer was removed (again) while this request ran: whatever
			// the request had set up on it went with it
			w.s.Probe("informer-removed-while-start-watches-ran")
			continue
		}
		if inf == nil {
			// the informer was removed before this request began and the request
			// did not bring it back
			w.s.Violate("C13/start-did-not-establish-watch/informer-still-gone", fmt.Sprintf("StartWatches(%s, %s) succeeded but the informer for %s, removed earlier, was not restarted", name, k.Kind, k.Kind))
			continue
		}
		if regs[cur][k] >= 1 {
			continue
		}
		sig := "C13/start-did-not-establish-watch"
		if inf.createdBy != cur {
			// the informer was removed and then restarted by someone else: another
			// controller's StartWatches, or a StoppableSource.Stop (GetInformer
			// constructs the informer as a side effect)
			sig += "/informer-restarted-by-someone-else"
		}
		w.s.Violate(sig, fmt.Sprintf("StartWatches(%s, %s) succeeded but controller object #%d has no live event handler for %s", name, k.Kind, cur.id, k.Kind))
	}
}

func (w *world) tick() int64 { w.clock++; return w.clock }

func (w *world) record(c int, in opIn, out opOut, call int64) {
	w.hist = append(w.hist, opRec{client: c, in: in, out: out, call: call, ret: w.tick()})
}

func (w *world) stopAll() {
	w.quiet = true
	for _, n := range append([]string{"composite/probe"}, ctrlNames...) {
		_ = w.eng.Stop(context.Background(), n)
	}
	close(w.endCh)
}

// checkForgotten: a controller the engine no longer reports as running is not
// running - its context was cancelled. (A controller that keeps running after
// the engine has forgotten it can never be stopped again.)
func (w *world) checkForgotten() {
	for _, n := range ctrlNames {
		if w.eng.IsRunning(n) {
			// one name, one running controller: anything else started under the
			// name and never cancelled has been lost (nobody can stop it any more)
			live := 0
			for _, c := range w.ctrls {
				if ctx, started := c.context(); c.name == n && started && ctx.Err() == nil {
					live++
				}
			}
			if live > 1 {
				w.s.Violate("C13/several-controllers-running-under-one-name", fmt.Sprintf("%d controllers started as %s are running; the engine knows one", live, n))
			}
			continue
		}
		for _, c := range w.ctrls {
			if c.name != n {
				continue
			}
			if ctx, started := c.context(); started && ctx.Err() == nil {
				w.s.Violate("C13/controller-forgotten-while-running", fmt.Sprintf("controller %s is reported not running, but a controller started under that name was never cancelled", n))
			}
		}
	}
}

// checkLinearizable: IsRunning reports a controller running exactly from a
// successful Start until its Stop — the Start/Stop/IsRunning history must be
// linearizable against a boolean register per controller.
func (w *world) checkLinearizable() {
	model := porcupine.Model{
		Partition: func(history []porcupine.Operation) [][]porcupine.Operation {
			by := map[string][]porcupine.Operation{}
			for _, o := range history {
				by[o.Input.(opIn).Ctrl] = append(by[o.Input.(opIn).Ctrl], o)
			}
			var keys []string
			for k := range by {
				keys = append(keys, k)
			}
			sort.Strings(keys)
			var out [][]porcupine.Operation
			for _, k := range keys {
				out = append(out, by[k])
			}
			return out
		},
		Init: func() interface{} { return false },
		Step: func(state, input, output interface{}) (bool, interface{}) {
			running := state.(bool)
			switch input.(opIn).Op {
			case "start":
				return true, true
			case "stop":
				if output.(opOut).Err {
					// a failed stop (a source could not be stopped) leaves the
					// controller running; it can only fail on a running controller
					return running, running
				}
				return true, false
			case "isrunning":
				return output.(opOut).Running == running, running
			}
			return false, running
		},
		Equal: func(a, b interface{}) bool { return a.(bool) == b.(bool) },
	}
	var ops []porcupine.Operation
	for _, h := range w.hist {
		ops = append(ops, porcupine.Operation{ClientId: h.client, Input: h.in, Call: h.call, Output: h.out, Return: h.ret})
	}
	if len(ops) == 0 {
		return
	}
	switch porcupine.CheckOperationsTimeout(model, ops, 20*time.Second) {
	case porcupine.Illegal:
		var hs []string
		for _, h := range w.hist {
			hs = append(hs, fmt.Sprintf("c%d %s(%s)=%v [%d,%d]", h.client, h.in.Op, h.in.Ctrl, h.out.Running, h.call, h.ret))
		}
		w.s.Violate("C13/isrunning-not-linearizable", "Start/Stop/IsRunning history is not linearizable: "+strings.Join(hs, " "))
	case porcupine.Unknown:
		w.s.Probe("porcupine-timeout")
	default:
		w.s.Probe("linearizable-history")
	}
}

// regsOf counts live handler registrations per controller object and kind.
func (w *world) regsOf() map[*fakeCtrl]map[schema.GroupVersionKind]int {
	out := map[*fakeCtrl]map[schema.GroupVersionKind]int{}
	for gvk, inf := range w.cache.infs {
		for _, r := range inf.regs {
			if out[r.ctrl] == nil {
				out[r.ctrl] = map[schema.GroupVersionKind]int{}
			}
			out[r.ctrl][gvk]++
		}
	}
	return out
}

func (w *world) checkQuiescent(infs *engine.InformerTrackingCache) {
	regs := w.regsOf()
	// the controller objects that are running now: the last one created per running name
	current := map[*fakeCtrl]bool{}
	for _, n := range ctrlNames {
		if !w.eng.IsRunning(n) {
			continue
		}
		var last *fakeCtrl
		for _, c := range w.ctrls {
			if c.name == n {
				last = c
			}
		}
		if last != nil {
			current[last] = true
			if ctx, started := last.context(); started && ctx.Err() != nil {
				w.s.Violate("C13/running-controller-cancelled", fmt.Sprintf("controller %s is reported running but its context is cancelled", n))
			}
			ws, err := w.eng.GetWatches(n)
			if err != nil {
				w.s.Violate("C13/getwatches-on-running", "GetWatches failed on a running controller: "+err.Error())
				continue
			}
			per := map[schema.GroupVersionKind]int{}
			seen := map[engine.WatchID]bool{}
			for _, id := range ws {
				if seen[id] {
					w.s.Violate("C13/duplicate-watch", fmt.Sprintf("controller %s lists watch %v twice", n, id))
				}
				seen[id] = true
				per[id.GVK]++
			}
			for gvk, cnt := range regs[last] {
				if cnt > per[gvk] {
					w.s.Violate("C13/more-handlers-than-watches", fmt.Sprintf("controller %s has %d live event handlers for %s but lists %d watch(es) of that kind", n, cnt, gvk.Kind, per[gvk]))
				}
			}
		}
	}
	// every other controller object was stopped: cancelled, and no handlers left
	for _, c := range w.ctrls {
		if current[c] {
			continue
		}
		if ctx, started := c.context(); started && ctx.Err() == nil {
			w.s.Violate("C13/stopped-controller-not-cancelled", fmt.Sprintf("controller object #%d (%s) was stopped but its context is not cancelled", c.id, c.name))
		}
		for gvk, cnt := range regs[c] {
			if cnt > 0 {
				w.s.Violate("C13/handler-left-on-stopped-controller", fmt.Sprintf("controller object #%d (%s) was stopped but still has %d event handler(s) registered for %s", c.id, c.name, cnt, gvk.Kind))
			}
		}
	}
	w.s.Probe("quiescent-state-checked")
}

// probeReestablish: a watch lost with its informer is re-established by the next start request.
func (w *world) probeReestablish(infs *engine.InformerTrackingCache) {
	n := "composite/probe"
	_ = w.eng.Start(n, engine.WithNewControllerFn(w.newController))
	w.s.Wait()
	defer func() { _ = w.eng.Stop(context.Background(), n) }()
	k := kinds[1]
	u := &unstructured.Unstructured{}
	u.SetGroupVersionKind(k)
	_ = infs.RemoveInformer(context.Background(), u)
	if err := w.eng.StartWatches(n, watchFor(k, engine.WatchTypeComposedResource)); err != nil {
		w.s.Violate("C13/startwatches-failed", err.Error())
		return
	}
	cur := w.liveCtrl(n)
	if cur == nil {
		w.s.Violate("C13/started-controller-not-live", "a started controller has a cancelled context")
		return
	}
	if got := w.regsOf()[cur][k]; got != 1 {
		w.s.Violate("C13/watch-not-registered", fmt.Sprintf("after StartWatches the controller has %d handlers for %s, want 1", got, k.Kind))
		return
	}
	_ = infs.RemoveInformer(context.Background(), u)
	if err := w.eng.StartWatches(n, watchFor(k, engine.WatchTypeComposedResource)); err != nil {
		w.s.Violate("C13/startwatches-failed", err.Error())
		return
	}
	if got := w.regsOf()[cur][k]; got != 1 {
		w.s.Violate("C13/watch-not-reestablished", fmt.Sprintf("informer for %s was removed; after the next StartWatches the controller has %d handlers, want 1", k.Kind, got))
	}
	w.s.Probe("reestablish-probed")
}

// probeCollector: the collector stops exactly the composed-resource watches
// whose kind no XR references; never the XR watch or the revision watch.
func (w *world) probeCollector(l *xrLister) {
	n := ctrlNames[1]
	_ = w.eng.Stop(context.Background(), n)
	_ = w.eng.Start(n, engine.WithNewControllerFn(w.newController))
	w.s.Wait()
	rev := &v1.CompositionRevision{}
	rev.SetGroupVersionKind(v1.CompositionRevisionGroupVersionKind)
	if err := w.eng.StartWatches(n,
		watchFor(kinds[0], engine.WatchTypeCompositeResource),
		engine.WatchFor(rev, engine.WatchTypeCompositionRevision, &handler.EnqueueRequestForObject{}),
		watchFor(kinds[1], engine.WatchTypeComposedResource),
		watchFor(kinds[2], engine.WatchTypeComposedResource)); err != nil {
		w.s.Violate("C13/startwatches-failed", err.Error())
		return
	}
	used := map[schema.GroupVersionKind]bool{}
	for _, refs := range w.xrRefs {
		for _, k := range refs {
			used[k] = true
		}
	}
	gc := watch.NewGarbageCollector(n, resource.CompositeKind(kinds[0]), gcEngine{w.eng, l})
	if err := gc.GarbageCollectWatchesNow(context.Background()); err != nil {
		w.s.Violate("C13/collector-failed", err.Error())
		return
	}
	ws, _ := w.eng.GetWatches(n)
	have := map[engine.WatchID]bool{}
	for _, id := range ws {
		have[id] = true
	}
	if !have[engine.WatchID{Type: engine.WatchTypeCompositeResource, GVK: kinds[0]}] {
		w.s.Violate("C13/collector-stopped-xr-watch", "watch garbage collection stopped the watch on the XRs themselves")
	}
	if !have[engine.WatchID{Type: engine.WatchTypeCompositionRevision, GVK: v1.CompositionRevisionGroupVersionKind}] {
		w.s.Violate("C13/collector-stopped-revision-watch", "watch garbage collection stopped the watch on composition revisions")
	}
	for _, k := range kinds[1:] {
		id := engine.WatchID{Type: engine.WatchTypeComposedResource, GVK: k}
		if used[k] && !have[id] {
			w.s.Violate("C13/collector-stopped-used-watch", fmt.Sprintf("watch garbage collection stopped the watch on %s, which an XR still references", k.Kind))
		}
		if !used[k] && have[id] {
			w.s.Violate("C13/collector-kept-unused-watch", fmt.Sprintf("watch garbage collection kept the watch on %s, which no XR references", k.Kind))
		}
	}
	w.s.Probe("collector-probed")
}
