// Package c05 checks property C05: Ready and Synced never overstate the
// truth, and functions cannot forge them (DESIGN.md §7 C05). It also enforces
// the single fault-dependent clause of C10: a resource whose render failed is
// not applied while the others are.
package c05

import (
	"context"
	"fmt"
	"sort"
	"strings"
	"testing"

	"k8s.io/apimachinery/pkg/apis/meta/v1/unstructured"
	"k8s.io/apimachinery/pkg/types"
	"sigs.k8s.io/controller-runtime/pkg/reconcile"

	fnv1 "github.com/crossplane/crossplane/apis/apiextensions/fn/proto/v1"

	"github.com/crossplane/crossplane/verifsim/kit"
	"github.com/crossplane/crossplane/verifsim/runner"
	"github.com/crossplane/crossplane/verifsim/sim"
	"github.com/crossplane/crossplane/verifsim/simapi"
	"github.com/crossplane/crossplane/verifsim/simfn"
	"github.com/crossplane/crossplane/verifsim/xrworld"
)

type prop struct{}

func init() { runner.Register(prop{}) }

func (prop) ID() string { return "C05" }

func (prop) Describe() runner.Description {
	return runner.Description{
		World:       "W-claim: real XR reconciler (both composers) and real claim reconciler; composed kinds with real schema validation (a kind that rejects applies lacking a required field); an external actor flipping composed resources' status",
		Real:        xrworld.RealComponents,
		Stub:        xrworld.StubComponents,
		Assumptions: kit.APIAssumptions,
		Rule:        "one case = one seeded run (pipelines whose last step marks resources ready by all/observed/field/none and the XR ready true/false/unset; functions emitting conditions of system and custom types with both targets, warning and fatal results; P&T templates with readiness checks none/field/condition and required patches whose source may be missing; a composed kind that rejects applies as invalid; claims on top; API faults); non-trivial = at least one fault fired or two tasks interleaved; distinct = distinct trace hash",
		FaultKinds:  []string{"err-before", "err-after", "conflict", "crash-before", "crash-after", "apply rejected as invalid (real validation)", "scripted fatal result"},
	}
}

type state struct {
	w      *xrworld.W
	fn     *simfn.Transport
	wl     *xrworld.Workload
	claims []*xrworld.ClaimSpec
	cmTask map[int]types.NamespacedName
}

func (prop) Run(t *testing.T, s *sim.Sim, res *runner.Result) {
	st := &state{cmTask: map[int]types.NamespacedName{}}
	xrworld.Run(s, res, xrworld.Hooks{
		Opts: func(tp *sim.Tape) xrworld.Opts {
			return xrworld.Opts{Claims: true, SSAClaims: tp.Next(2) == 1, LagXRs: tp.Next(4) == 0}
		},
		NoXRs:      true,
		Params:     xrworld.DrawParams{Readiness: true, Conditions: true, Strict: true, Fatal: true, Anonymous: true},
		Faults:     []sim.Outcome{sim.ErrBefore, sim.ErrAfter, sim.Conflict, sim.CrashBefore, sim.CrashAfter},
		MaxChaos:   220,
		HealRounds: 4,
		Started: func(w *xrworld.W, wl *xrworld.Workload) {
			st.w, st.wl = w, wl
			st.fn = w.Fn
			w.OnFnTransport = func(tr *simfn.Transport) { st.fn = tr }
			tp := s.Tape
			st.claims = xrworld.DrawClaims(tp, wl, xrworld.DrawParams{}, 2)
			for _, c := range st.claims {
				c.ReadyNames = subset(tp, wl.Pool)
				c.XRReady = []string{"", "", "true", "false"}[tp.Next(4)]
				if tp.Next(2) == 0 {
					c.Mode = "fast"
				}
				w.CreateClaim(c)
			}
			w.OnXRDone = func(key types.NamespacedName, tk *sim.Task, startSeq int, r reconcile.Result, err error) {
				st.judgeXR(key.Name, tk, startSeq)
			}
			w.OnStart = func(ctrl string, key types.NamespacedName, tk *sim.Task) {
				if strings.HasPrefix(ctrl, "claim/") {
					st.cmTask[tk.ID] = key
				}
			}
			w.Store.OnLog = append(w.Store.OnLog, st.onLog)
		},
		Env: func(w *xrworld.W, wl *xrworld.Workload) []sim.Action {
			var acts []sim.Action
			// an XR is deleted out of band (its claim creates it again under its name)
			for _, xr := range w.XRObjects() {
				xr := xr
				acts = append(acts, sim.Action{Key: "XR " + xr.GetName() + " is force-deleted", Weight: 1, Run: func() {
					ctx := context.Background()
					x := xr.DeepCopy()
					if w.Direct.Get(ctx, types.NamespacedName{Name: x.GetName()}, x) != nil {
						return
					}
					x.SetFinalizers(nil)
					if w.Direct.Update(ctx, x) == nil && w.Direct.Delete(ctx, x) == nil {
						w.S.Probe("xr-force-deleted")
					}
				}})
			}
			for _, c := range st.claims {
				c := c
				acts = append(acts, sim.Action{Key: "edit claim " + c.Name, Weight: 5, Run: func() { st.editClaim(c, s.Tape) }})
			}
			// an external controller makes composed resources ready / unready
			if cs := w.ComposedObjects(); len(cs) > 0 {
				acts = append(acts, sim.Action{Key: "external controller flips a composed resource's status", Weight: 5, Run: func() { st.flip(s.Tape) }})
			}
			return acts
		},
		Final: func(w *xrworld.W, wl *xrworld.Workload, quiet bool) {
			if !quiet {
				// a template that cannot render gets a fresh generated name recorded on
				// every reconcile: no fixpoint, and nothing this property is about
				w.S.Probe("no-quiescence")
			}
		},
	})
}

// templateID: a template's name, or for an anonymous template its content (the
// workload's bases carry a distinct spec.tag).
func templateID(tmap map[string]any) string {
	if n, _ := tmap["name"].(string); n != "" {
		return n
	}
	tag, _, _ := unstructured.NestedString(tmap, "base", "spec", "tag")
	return "tag:" + tag
}

// rendersFor: a template renders unless a required from-composite patch lacks its source.
func rendersFor(tmap, xr map[string]any) bool {
	patches, _ := tmap["patches"].([]any)
	for _, p := range patches {
		pm, _ := p.(map[string]any)
		pol, _, _ := unstructured.NestedString(pm, "policy", "fromFieldPath")
		from, _ := pm["fromFieldPath"].(string)
		if pol == "Required" {
			if _, found, _ := unstructured.NestedFieldNoCopy(xr, strings.Split(from, ".")...); !found {
				return false
			}
		}
	}
	return true
}

func subset(t *sim.Tape, from []string) []string {
	var out []string
	for _, x := range from {
		if t.Next(2) == 1 {
			out = append(out, x)
		}
	}
	return out
}

func (st *state) editClaim(c *xrworld.ClaimSpec, tp *sim.Tape) {
	switch tp.Next(5) {
	case 0:
		c.Items = subset(tp, st.wl.Pool)
		if len(c.Items) == 0 {
			c.Items = []string{"a"}
		}
	case 1:
		c.ReadyNames = subset(tp, st.wl.Pool)
	case 2:
		c.XRReady = []string{"", "true", "false"}[tp.Next(3)]
	case 3:
		c.Mode = []string{"", "fast"}[tp.Next(2)]
	case 4:
		steps := []string{""}
		for _, sp := range st.wl.Steps {
			steps = append(steps, sp.Name)
		}
		c.FatalStep = steps[tp.Next(len(steps))]
	}
	u := st.w.ClaimObj(c)
	if u == nil || u.GetDeletionTimestamp() != nil {
		return
	}
	c.ApplyTo(u)
	_ = st.w.Direct.Update(context.Background(), u)
}

func (st *state) flip(tp *sim.Tape) {
	cs := st.w.ComposedObjects()
	c := cs[tp.Next(len(cs))]
	u := &unstructured.Unstructured{}
	u.SetGroupVersionKind(c.Obj.GroupVersionKind())
	ctx := context.Background()
	if err := st.w.Direct.Get(ctx, types.NamespacedName{Name: c.Obj.GetName()}, u); err != nil {
		return
	}
	switch tp.Next(4) {
	case 0:
		_ = unstructured.SetNestedField(u.Object, "Ready", "status", "phase")
	case 1:
		_ = unstructured.SetNestedField(u.Object, "Pending", "status", "phase")
	case 2:
		_ = unstructured.SetNestedSlice(u.Object, []any{map[string]any{"type": "Ready", "status": "True", "reason": "Available", "lastTransitionTime": "2000-01-01T00:00:00Z"}}, "status", "conditions")
	case 3:
		_ = unstructured.SetNestedSlice(u.Object, []any{map[string]any{"type": "Ready", "status": "False", "reason": "Creating", "lastTransitionTime": "2000-01-01T00:00:00Z"}}, "status", "conditions")
	}
	_ = st.w.Direct.Status().Update(ctx, u)
}

func cond(obj map[string]any, typ string) map[string]any {
	conds, _, _ := unstructured.NestedSlice(obj, "status", "conditions")
	for _, c := range conds {
		m, _ := c.(map[string]any)
		if m["type"] == typ {
			return m
		}
	}
	return nil
}

func condTrue(obj map[string]any, typ string) bool {
	c := cond(obj, typ)
	return c != nil && c["status"] == "True"
}

func composedKind(k simapi.ObjKey) bool {
	for _, g := range xrworld.ComposedGVKs {
		if g.Group == k.Group && g.Kind == k.Kind {
			return true
		}
	}
	return false
}

// judgeXR evaluates the XR status a reconcile wrote.
func (st *state) judgeXR(xrName string, t *sim.Task, startSeq int) {
	w := st.w
	store := w.Store
	xrKey := simapi.ObjKey{Group: xrworld.XRGVK.Group, Kind: xrworld.XRGVK.Kind, Name: xrName}
	var mine []*simapi.LogEntry
	for _, e := range store.Log[startSeq:] {
		if e.TaskID == t.ID {
			mine = append(mine, e)
		}
	}
	var status *simapi.LogEntry
	for _, e := range mine {
		if !e.Read && e.Injected == "" && e.Err == nil && e.Key == xrKey && e.Verb == "update-status" && e.After != nil {
			status = e
		}
	}
	if status == nil {
		return
	}
	xr := status.After
	// forged system conditions never reach the XR
	for _, typ := range []string{"Ready", "Synced", "Healthy"} {
		if c := cond(xr, typ); c != nil && (c["reason"] == "ForgedByFunction" || c["message"] == "forged-marker") {
			w.S.Violate("C05/function-forged-system-condition/"+typ, fmt.Sprintf("XR %s carries a %s condition supplied by a function", xrName, typ))
		}
	}
	var calls []*simfn.Call
	for _, c := range st.fn.Calls {
		if c.TaskID == t.ID {
			calls = append(calls, c)
		}
	}
	revName, _, _ := unstructured.NestedString(xr, "spec", "compositionRevisionRef", "name")
	rev := store.Peek(simapi.ObjKey{Group: xrworld.RevGVK.Group, Kind: xrworld.RevGVK.Kind, Name: revName})
	if rev == nil {
		return
	}
	mode, _, _ := unstructured.NestedString(rev, "spec", "mode")
	// the revision must not have been switched under this reconcile
	for _, e := range mine {
		if !e.Read && e.Key == xrKey && e.Changed {
			b, _, _ := unstructured.NestedString(e.Before, "spec", "compositionRevisionRef", "name")
			a, _, _ := unstructured.NestedString(e.After, "spec", "compositionRevisionRef", "name")
			if a != b && b != "" {
				return
			}
		}
	}
	applied := map[string]bool{} // composition resource name -> an apply/create/patch/update of it committed without error in this reconcile
	touched := map[string]bool{}
	for _, e := range mine {
		if e.Read || e.Injected != "" || e.DryRun || !composedKind(e.Key) {
			continue
		}
		if e.Verb == "delete" {
			continue
		}
		var rn string
		if e.After != nil {
			rn = (&unstructured.Unstructured{Object: e.After}).GetAnnotations()["crossplane.io/composition-resource-name"]
		}
		if rn == "" && e.Before != nil {
			rn = (&unstructured.Unstructured{Object: e.Before}).GetAnnotations()["crossplane.io/composition-resource-name"]
		}
		if rn == "" {
			// composed from an anonymous template: recognised by its content
			for _, m := range []map[string]any{e.After, e.Before} {
				if tag, _, _ := unstructured.NestedString(m, "spec", "tag"); tag != "" && rn == "" {
					rn = "tag:" + tag
				}
			}
		}
		if rn == "" {
			continue
		}
		touched[rn] = true
		if e.Err == nil {
			applied[rn] = true
		}
	}

	if mode == "Pipeline" {
		var last *simfn.Call
		fatal := false
		seen := map[string]bool{}
		for _, c := range calls {
			if c.Err != nil || c.Rsp == nil {
				continue
			}
			last = c
			// a response's conditions count as asserted even when the same response
			// carries the fatal result (conditions are part of what the step said)
			for _, cc := range c.Rsp.GetConditions() {
				seen[cc.GetType()] = true
			}
			for _, r := range c.Rsp.GetResults() {
				fatal = fatal || r.GetSeverity() == fnv1.Severity_SEVERITY_FATAL
			}
		}
		if last == nil {
			return
		}
		if fatal {
			// custom conditions not re-asserted because of the fatal error become Unknown
			w.S.Probe("status-after-fatal-result")
			for _, c := range conditions(status.Before) {
				typ, _ := c["type"].(string)
				if typ == "Ready" || typ == "Synced" || typ == "Healthy" || seen[typ] {
					continue
				}
				if a := cond(xr, typ); a != nil && a["status"] != "Unknown" {
					w.S.Violate("C05/stale-custom-condition-after-fatal", fmt.Sprintf("XR %s keeps custom condition %s=%v although a fatal result prevented it from being re-asserted", xrName, typ, a["status"]))
				}
			}
			if condTrue(xr, "Synced") {
				w.S.Violate("C05/synced-after-fatal", fmt.Sprintf("XR %s is reported Synced=True by a reconcile whose pipeline returned a fatal result", xrName))
			}
			return
		}
		// only the last step's final response counts
		steps, _, _ := unstructured.NestedSlice(rev, "spec", "pipeline")
		if len(steps) == 0 {
			return
		}
		lastStep, _ := steps[len(steps)-1].(map[string]any)["step"].(string)
		if sname, _ := last.Req.GetInput().AsMap()["step"].(string); sname != lastStep {
			return
		}
		d := last.Rsp.GetDesired()
		var names []string
		allReady := true
		for n, r := range d.GetResources() {
			names = append(names, n)
			if r.GetReady() != fnv1.Ready_READY_TRUE {
				allReady = false
			}
		}
		sort.Strings(names)
		xrReady := d.GetComposite().GetReady()
		if condTrue(xr, "Ready") {
			w.S.Probe("xr-ready-true-judged")
			ok := xrReady == fnv1.Ready_READY_TRUE || (xrReady != fnv1.Ready_READY_FALSE && allReady)
			if !ok {
				w.S.Violate("C05/ready-overstated/pipeline", fmt.Sprintf("XR %s is Ready=True but the pipeline marked the XR %v and its resources ready=%v (%v)", xrName, xrReady, allReady, names))
			}
		}
		if condTrue(xr, "Synced") {
			w.S.Probe("xr-synced-true-judged")
			for _, n := range names {
				if !applied[n] {
					w.S.Violate("C05/synced-overstated/pipeline", fmt.Sprintf("XR %s is Synced=True but desired resource %q was not applied successfully in this reconcile", xrName, n))
				}
			}
		}
		return
	}

	// ---- patch and transform
	tmpls, _, _ := unstructured.NestedSlice(rev, "spec", "resources")
	ready, synced := condTrue(xr, "Ready"), condTrue(xr, "Synced")
	// Ready is asserted only by a reconcile that got through its composition: one
	// that failed before (or in the middle of) composing writes its error into
	// Synced and leaves the Ready condition it read untouched
	if ready {
		for _, tm := range tmpls {
			tmap, _ := tm.(map[string]any)
			name := templateID(tmap)
			if rendersFor(tmap, xr) && !touched[name] {
				w.S.Probe("ready-carried-over-by-cut-short-composition")
				ready = false
			}
		}
	}
	for _, tm := range tmpls {
		tmap, _ := tm.(map[string]any)
		name := templateID(tmap)
		if strings.HasPrefix(name, "tag:") {
			w.S.Probe("anonymous-template-judged")
			if synced {
				w.S.Probe("anonymous-template-judged/synced")
			}
		}
		// does the template render? a required from-composite patch needs its source
		renders := rendersFor(tmap, xr)
		if !renders {
			w.S.Probe("template-render-failed")
			// C10's fault-dependent clause: never applied in this reconcile
			if touched[name] {
				w.S.Violate("C10/half-rendered-resource-applied", fmt.Sprintf("XR %s: template %q failed to render (required patch source missing) but a write was issued for it", xrName, name))
			}
			if synced {
				w.S.Violate("C05/synced-overstated/pt-render", fmt.Sprintf("XR %s is Synced=True although template %q failed to render", xrName, name))
			}
			if ready {
				w.S.Violate("C05/ready-overstated/pt-render", fmt.Sprintf("XR %s is Ready=True although template %q failed to render", xrName, name))
			}
			continue
		}
		if synced && !applied[name] {
			w.S.Violate("C05/synced-overstated/pt", fmt.Sprintf("XR %s is Synced=True but template %q was not applied successfully in this reconcile", xrName, name))
		}
		if ready {
			// readiness, recomputed on the composed object as this reconcile left it
			var obj map[string]any
			for _, e := range mine {
				if !e.Read && e.Err == nil && e.After != nil && composedKind(e.Key) {
					tag, _, _ := unstructured.NestedString(e.After, "spec", "tag")
					if rn := (&unstructured.Unstructured{Object: e.After}).GetAnnotations()["crossplane.io/composition-resource-name"]; rn == name || (rn == "" && "tag:"+tag == name) {
						obj = e.After
					}
				}
			}
			if obj == nil {
				w.S.Violate("C05/ready-overstated/pt", fmt.Sprintf("XR %s is Ready=True but template %q has no composed resource from this reconcile", xrName, name))
				continue
			}
			if !ptReady(tmap, obj) {
				w.S.Violate("C05/ready-overstated/pt", fmt.Sprintf("XR %s is Ready=True but the composed resource of template %q does not pass its readiness check", xrName, name))
			}
		}
	}
	if ready {
		w.S.Probe("xr-ready-true-judged")
	}
	if synced {
		w.S.Probe("xr-synced-true-judged")
	}
}

func conditions(obj map[string]any) []map[string]any {
	var out []map[string]any
	conds, _, _ := unstructured.NestedSlice(obj, "status", "conditions")
	for _, c := range conds {
		if m, ok := c.(map[string]any); ok {
			out = append(out, m)
		}
	}
	return out
}

// ptReady evaluates a template's readiness checks (independently of
// composite/ready.go): none -> ready; MatchString on a field; default: the
// Ready condition is True.
func ptReady(tmpl, obj map[string]any) bool {
	checks, _ := tmpl["readinessChecks"].([]any)
	if len(checks) == 0 {
		return condTrue(obj, "Ready")
	}
	for _, c := range checks {
		cm, _ := c.(map[string]any)
		switch cm["type"] {
		case "None":
		case "MatchString":
			fp, _ := cm["fieldPath"].(string)
			want, _ := cm["matchString"].(string)
			got, _, _ := unstructured.NestedString(obj, strings.Split(fp, ".")...)
			if got != want {
				return false
			}
		case "MatchCondition":
			typ, _, _ := unstructured.NestedString(cm, "matchCondition", "type")
			want, _, _ := unstructured.NestedString(cm, "matchCondition", "status")
			c := cond(obj, typ)
			if c == nil || c["status"] != want {
				return false
			}
		default:
			if !condTrue(obj, "Ready") {
				return false
			}
		}
	}
	return true
}

// onLog: a claim is reported Ready=True only by a reconcile that observed its
// bound XR Ready=True.
func (st *state) onLog(e *simapi.LogEntry) {
	w := st.w
	if e.Read || e.Injected != "" || e.Err != nil || e.DryRun {
		return
	}
	ck, ok := st.cmTask[e.TaskID]
	if !ok || e.Key.Kind != xrworld.ClaimGVK.Kind || e.Key.Group != xrworld.ClaimGVK.Group || e.After == nil {
		return
	}
	for _, typ := range []string{"Ready", "Synced"} {
		if c := cond(e.After, typ); c != nil && (c["reason"] == "ForgedByFunction" || c["message"] == "forged-marker") {
			w.S.Violate("C05/function-forged-system-condition/claim-"+typ, fmt.Sprintf("claim %s carries a %s condition supplied by a function", ck, typ))
		}
	}
	if !condTrue(e.After, "Ready") || condTrue(e.Before, "Ready") {
		return
	}
	// the XR as this reconcile last observed it: its last read of it, or the
	// answer to its own last write of it
	var seen map[string]any
	for i := len(w.Store.Log) - 1; i >= 0; i-- {
		l := w.Store.Log[i]
		if l.TaskID != e.TaskID || l.Key.Kind != xrworld.XRGVK.Kind || l.Key.Group != xrworld.XRGVK.Group || l.Injected != "" || l.Err != nil {
			continue
		}
		if l.After != nil {
			seen = l.After
			break
		}
	}
	w.S.Probe("claim-ready-true-judged")
	if seen == nil || !condTrue(seen, "Ready") {
		w.S.Violate("C05/claim-ready-without-ready-xr", fmt.Sprintf("claim %s was reported Ready=True by a reconcile that did not observe its XR Ready=True", ck))
	}
}

