// Package c19 checks property C19: an in-use resource cannot be deleted;
// protection ends exactly when use ends (DESIGN.md §7 C19, world W-usage).
// It also decides the composed-Usage clause of C08.
package c19

import (
	"context"
	"encoding/json"
	"fmt"
	"net/http"
	"os"
	"path/filepath"
	"sort"
	"sync"
	"testing"
	"time"

	admissionv1 "k8s.io/api/admission/v1"
	admregv1 "k8s.io/api/admissionregistration/v1"
	extv1 "k8s.io/apiextensions-apiserver/pkg/apis/apiextensions/v1"
	kerrors "k8s.io/apimachinery/pkg/api/errors"
	metav1 "k8s.io/apimachinery/pkg/apis/meta/v1"
	"k8s.io/apimachinery/pkg/apis/meta/v1/unstructured"
	"k8s.io/apimachinery/pkg/labels"
	kruntime "k8s.io/apimachinery/pkg/runtime"
	"k8s.io/apimachinery/pkg/runtime/schema"
	"k8s.io/apimachinery/pkg/types"
	"k8s.io/utils/ptr"
	"sigs.k8s.io/controller-runtime/pkg/client"
	ctrlmanager "sigs.k8s.io/controller-runtime/pkg/manager"
	"sigs.k8s.io/controller-runtime/pkg/reconcile"
	"sigs.k8s.io/controller-runtime/pkg/webhook"
	"sigs.k8s.io/controller-runtime/pkg/webhook/admission"
	"sigs.k8s.io/yaml"

	xpcontroller "github.com/crossplane/crossplane-runtime/pkg/controller"
	"github.com/crossplane/crossplane-runtime/pkg/logging"

	"github.com/crossplane/crossplane/apis/apiextensions/v1beta1"
	usagectrl "github.com/crossplane/crossplane/internal/controller/apiextensions/usage"
	"github.com/crossplane/crossplane/internal/usage"

	"github.com/crossplane/crossplane/verifsim/kit"
	"github.com/crossplane/crossplane/verifsim/runner"
	"github.com/crossplane/crossplane/verifsim/sim"
	"github.com/crossplane/crossplane/verifsim/simapi"
)

type prop struct{}

func init() { runner.Register(prop{}) }

func (prop) ID() string { return "C19" }

func (prop) Describe() runner.Description {
	return runner.Description{
		World: "W-usage: real usage.Reconciler and the real no-usages admission webhook (wired through the real SetupWebhookWithManager) on the simulated API server; deletes reach the store only through admission",
		Real: []string{"usage.Reconciler + selector resolver (internal/controller/apiextensions/usage)", "usage.Handler and its field index (internal/usage), registered by the real SetupWebhookWithManager on a fake manager",
			"cluster/webhookconfigurations/usage.yaml (rules and objectSelector are parsed from the file)", "crossplane-runtime finalizer/applicator"},
		Stub:        []string{"Kubernetes API server incl. admission chain and garbage collector (simapi)", "webhook transport (the handler is called in-process with an AdmissionRequest built from the stored object and the delete options; its reads and its annotation patch are atomic with the request)", "controller-runtime manager/workqueue"},
		Assumptions: kit.APIAssumptions,
		Rule:        "one case = one seeded run (1-3 Usages over one used and two using resources, by reference or selector, used kind served in two versions; Usages and resources created and deleted in any order with any propagation policy and request version; reconciles faulted or crashed at any call); non-trivial = at least one fault fired or two tasks interleaved; distinct = distinct trace hash",
		FaultKinds:  []string{"err-before", "err-after", "conflict", "crash-before", "crash-after"},
	}
}

var (
	usageGVK  = schema.GroupVersionKind{Group: "apiextensions.crossplane.io", Version: "v1beta1", Kind: "Usage"}
	widgetGK  = schema.GroupKind{Group: "things.example.org", Kind: "Widget"}
	gadgetGVK = schema.GroupVersionKind{Group: "things.example.org", Version: "v1", Kind: "Gadget"}
	inUse     = "crossplane.io/in-use"
	finUsage  = "usage.apiextensions.crossplane.io"
)

var (
	whOnce sync.Once
	whCfg  *admregv1.ValidatingWebhookConfiguration
	whErr  error
)

func webhookConfig() (*admregv1.ValidatingWebhookConfiguration, error) {
	whOnce.Do(func() {
		b, err := os.ReadFile(filepath.Join(kit.RepoDir(), "cluster", "webhookconfigurations", "usage.yaml"))
		if err != nil {
			whErr = err
			return
		}
		whCfg = &admregv1.ValidatingWebhookConfiguration{}
		whErr = yaml.Unmarshal(b, whCfg)
	})
	return whCfg, whErr
}

func crd(kind, plural string, versions ...string) *extv1.CustomResourceDefinition {
	c := &extv1.CustomResourceDefinition{ObjectMeta: metav1.ObjectMeta{Name: plural + ".things.example.org"},
		Spec: extv1.CustomResourceDefinitionSpec{Group: "things.example.org", Scope: extv1.ClusterScoped,
			Names: extv1.CustomResourceDefinitionNames{Kind: kind, Plural: plural, ListKind: kind + "List"}}}
	for i, v := range versions {
		c.Spec.Versions = append(c.Spec.Versions, extv1.CustomResourceDefinitionVersion{Name: v, Served: true, Storage: i == 0,
			Schema: &extv1.CustomResourceValidation{OpenAPIV3Schema: &extv1.JSONSchemaProps{Type: "object", XPreserveUnknownFields: ptr.To(true)}}})
	}
	return c
}

// fake manager for SetupWebhookWithManager
type whServer struct {
	webhook.Server
	handlers map[string]http.Handler
}

func (s *whServer) Register(path string, h http.Handler) { s.handlers[path] = h }

type fakeMgr struct {
	ctrlmanager.Manager
	c   client.Client
	idx client.FieldIndexer
	srv *whServer
}

func (m *fakeMgr) GetClient() client.Client             { return m.c }
func (m *fakeMgr) GetFieldIndexer() client.FieldIndexer { return m.idx }
func (m *fakeMgr) GetWebhookServer() webhook.Server     { return m.srv }
func (m *fakeMgr) GetScheme() *kruntime.Scheme          { return m.c.Scheme() }

type usageSpec struct {
	name     string
	by       string // "" | app1 | app2
	selector bool   // of by selector instead of reference
	ofVer    string
	composed bool // carries the composite label (a Usage that is part of a composition)
	replay   bool
}

type world struct {
	kit.World
	direct  *simapi.Client
	proc    *sim.Proc
	idx     *simapi.Indexers
	handler admission.Handler
	usages  []*usageSpec
	// per Usage UID: seq at which it became Ready=True (protected from then on)
	readyAt map[types.UID]bool
	deletes int
}

func (prop) Run(t *testing.T, s *sim.Sim, res *runner.Result) { RunWorld(s, res) }

// RunWorld is one run of the usage world (also borrowed by the C08 check for
// its clause on composed Usages).
func RunWorld(s *sim.Sim, res *runner.Result) {
	w := &world{readyAt: map[types.UID]bool{}}
	w.S, w.Res = s, res
	w.Store = simapi.NewStore(kit.Scheme())
	if err := kit.ServeCore(w.Store); err != nil {
		res.Trouble = err.Error()
		return
	}
	cfg, err := webhookConfig()
	if err != nil {
		res.Trouble = err.Error()
		return
	}
	kit.HookLog(s, w.Store)
	kit.SeedNames(s)
	w.idx = simapi.NewIndexers()
	w.direct = simapi.NewClient(w.Store, nil, nil, "user").WithIndexers(w.idx)
	w.proc = s.NewProc("core")
	ctx := context.Background()
	for _, c := range []*extv1.CustomResourceDefinition{crd("Widget", "widgets", "v1", "v1beta1"), crd("Gadget", "gadgets", "v1")} {
		if err := w.direct.Create(ctx, c); err != nil {
			res.Trouble = err.Error()
			return
		}
	}
	// the webhook: the real setup function against a fake manager
	srv := &whServer{handlers: map[string]http.Handler{}}
	whClient := simapi.NewClient(w.Store, nil, nil, "webhook").WithIndexers(w.idx)
	if err := usage.SetupWebhookWithManager(&fakeMgr{c: whClient, idx: w.idx, srv: srv}, xpcontroller.Options{Logger: logging.NewNopLogger()}); err != nil {
		res.Trouble = "SetupWebhookWithManager: " + err.Error()
		return
	}
	for _, wh := range cfg.Webhooks {
		if wh.ClientConfig.Service == nil || wh.ClientConfig.Service.Path == nil {
			continue
		}
		h, ok := srv.handlers[*wh.ClientConfig.Service.Path].(*webhook.Admission)
		if !ok {
			res.Trouble = "no handler registered for " + *wh.ClientConfig.Service.Path
			return
		}
		w.handler = h.Handler
		sel, err := metav1.LabelSelectorAsSelector(wh.ObjectSelector)
		if err != nil {
			res.Trouble = err.Error()
			return
		}
		ops := map[string]bool{}
		for _, r := range wh.Rules {
			for _, o := range r.Operations {
				ops[string(o)] = true
			}
		}
		w.Store.Admission = append(w.Store.Admission, func(req *simapi.AdmissionRequest) error { return w.admit(req, sel, ops) })
	}

	tp := s.Tape
	nU := 1 + tp.Next(3)
	for i := 0; i < nU; i++ {
		u := &usageSpec{name: fmt.Sprintf("u%d", i), by: []string{"", "app1", "app2"}[tp.Next(3)], selector: tp.Next(3) == 0, ofVer: []string{"v1", "v1beta1"}[tp.Next(2)], replay: tp.Next(4) == 0}
		u.composed = u.by != "" && tp.Next(2) == 0
		w.usages = append(w.usages, u)
	}
	chaos := 40 + tp.Next(200)
	kit.DrawFaults(s, []sim.Outcome{sim.ErrBefore, sim.ErrAfter, sim.Conflict, sim.CrashBefore, sim.CrashAfter})
	var wl []string
	for _, u := range w.usages {
		wl = append(wl, fmt.Sprintf("%s of=db(%s,selector=%v) by=%q composed=%v", u.name, u.ofVer, u.selector, u.by, u.composed))
	}
	res.Workload = wl
	w.mkResource("Widget", "v1", "db", map[string]string{"role": "db"})
	w.mkResource("Gadget", "v1", "app1", nil)
	w.mkResource("Gadget", "v1", "app2", nil)
	w.newProcess()
	w.Store.OnLog = append(w.Store.OnLog, w.onLog)

	s.Phase = "chaos"
	for i := 0; i < chaos && len(s.Violations) == 0; i++ {
		acts := w.ReconcileActions()
		if w.proc.Dead {
			acts = append(acts, sim.Action{Key: "restart core", Weight: 40, Run: func() { s.Restart(w.proc); w.newProcess() }})
		}
		acts = append(acts, w.envActions(tp)...)
		if !s.StepOnce(acts, 30) {
			break
		}
	}
	s.Phase = "heal"
	if w.proc.Dead {
		s.Restart(w.proc)
		w.newProcess()
	}
	quiet := w.Heal(8, func() {
		for _, k := range w.Store.GCCandidates() {
			w.Store.GCStep(k)
		}
		s.Advance(3 * time.Second)
		w.Drain(2000)
	})
	if !quiet {
		res.Inconclusive = "no-quiescence"
	} else if len(s.Violations) == 0 {
		w.finalProbe()
	}
	res.StateHashes = append(res.StateHashes, w.Store.StateHash())
	s.Shutdown(w.proc)
}

func (w *world) mkResource(kind, ver, name string, lbls map[string]string) {
	u := &unstructured.Unstructured{Object: map[string]any{"apiVersion": "things.example.org/" + ver, "kind": kind, "metadata": map[string]any{"name": name}, "spec": map[string]any{}}}
	if lbls != nil {
		u.SetLabels(lbls)
	}
	_ = w.direct.Create(context.Background(), u)
}

func (w *world) newProcess() {
	c := simapi.NewClient(w.Store, w.S, w.proc, "usage-controller").WithIndexers(w.idx)
	rec := usagectrl.NewReconciler(kit.Mgr{C: c, S: w.Store.Scheme})
	ctrl := &kit.Controller{Name: "usage", Proc: w.proc, Reconcile: rec.Reconcile, Keys: kit.KeysOfKind(w.Store, usageGVK.GroupKind()), Weight: 30}
	ctrl.OnDone = func(types.NamespacedName, *sim.Task, reconcile.Result, error) {}
	w.Ctrls = []*kit.Controller{ctrl}
}

func (w *world) usageObj(u *usageSpec) *v1beta1.Usage {
	o := &v1beta1.Usage{ObjectMeta: metav1.ObjectMeta{Name: u.name}}
	o.Spec.Of = v1beta1.Resource{APIVersion: "things.example.org/" + u.ofVer, Kind: "Widget"}
	if u.selector {
		o.Spec.Of.ResourceSelector = &v1beta1.ResourceSelector{MatchLabels: map[string]string{"role": "db"}}
	} else {
		o.Spec.Of.ResourceRef = &v1beta1.ResourceRef{Name: "db"}
	}
	if u.by != "" {
		o.Spec.By = &v1beta1.Resource{APIVersion: "things.example.org/v1", Kind: "Gadget", ResourceRef: &v1beta1.ResourceRef{Name: u.by}}
	} else {
		o.Spec.Reason = ptr.To("because")
	}
	if u.replay {
		o.Spec.ReplayDeletion = ptr.To(true)
	}
	if u.composed {
		o.Labels = map[string]string{"crossplane.io/composite": "some-xr"}
	}
	return o
}

func (w *world) exists(gk schema.GroupKind, name string) map[string]any {
	return w.Store.Peek(simapi.ObjKey{Group: gk.Group, Kind: gk.Kind, Name: name})
}

func (w *world) envActions(tp *sim.Tape) []sim.Action {
	var acts []sim.Action
	ctx := context.Background()
	for _, u := range w.usages {
		u := u
		if m := w.exists(usageGVK.GroupKind(), u.name); m == nil {
			acts = append(acts, sim.Action{Key: "create usage " + u.name, Weight: 8, Run: func() { _ = w.direct.Create(ctx, w.usageObj(u)) }})
		} else if (&unstructured.Unstructured{Object: m}).GetDeletionTimestamp() == nil {
			acts = append(acts, sim.Action{Key: "delete usage " + u.name, Weight: 3, Run: func() { _ = w.direct.Delete(ctx, w.usageObj(u)) }})
		}
	}
	if w.exists(widgetGK, "db") == nil {
		// a new resource of the same name is only created once no Usage is left
		// (a Usage names its resource by name; re-creating the resource under a
		// ready Usage is outside the property's histories)
		if len(w.Store.KeysOf(usageGVK.GroupKind())) == 0 {
			acts = append(acts, sim.Action{Key: "create used db", Weight: 8, Run: func() { w.mkResource("Widget", "v1", "db", map[string]string{"role": "db"}) }})
		}
	} else {
		acts = append(acts, sim.Action{Key: "delete used db", Weight: 6, Run: func() { w.deleteUsed(tp) }})
	}
	for _, n := range []string{"app1", "app2"} {
		n := n
		if w.exists(gadgetGVK.GroupKind(), n) == nil {
			acts = append(acts, sim.Action{Key: "create using " + n, Weight: 5, Run: func() { w.mkResource("Gadget", "v1", n, nil) }})
		} else {
			acts = append(acts, sim.Action{Key: "delete using " + n, Weight: 2, Run: func() {
				g := &unstructured.Unstructured{}
				g.SetGroupVersionKind(gadgetGVK)
				g.SetName(n)
				_ = w.direct.Delete(ctx, g)
			}})
		}
	}
	for _, k := range w.Store.GCCandidates() {
		k := k
		acts = append(acts, sim.Action{Key: "k8s-gc " + k.String(), Weight: 6, Run: func() { w.Store.GCStep(k) }})
	}
	acts = append(acts, sim.Action{Key: "advance 3s", Weight: 2, Run: func() { w.S.Advance(3 * time.Second) }})
	return acts
}

// protectors returns the Usages that protect db right now (Ready=True, not
// being deleted) and all Usages that name it.
func (w *world) protectors() (ready, naming []string) {
	for _, k := range w.Store.KeysOf(usageGVK.GroupKind()) {
		m := w.Store.Peek(k)
		kind, _, _ := unstructured.NestedString(m, "spec", "of", "kind")
		av, _, _ := unstructured.NestedString(m, "spec", "of", "apiVersion")
		name, _, _ := unstructured.NestedString(m, "spec", "of", "resourceRef", "name")
		gv, _ := schema.ParseGroupVersion(av)
		if kind != "Widget" || gv.Group != widgetGK.Group || name != "db" {
			continue
		}
		naming = append(naming, k.Name)
		u := &unstructured.Unstructured{Object: m}
		if u.GetDeletionTimestamp() == nil && condTrue(m, "Ready") {
			ready = append(ready, k.Name)
		}
	}
	return ready, naming
}

func condTrue(m map[string]any, typ string) bool {
	conds, _, _ := unstructured.NestedSlice(m, "status", "conditions")
	for _, c := range conds {
		cm, _ := c.(map[string]any)
		if cm["type"] == typ {
			return cm["status"] == "True"
		}
	}
	return false
}

// deleteUsed issues a DELETE for db with drawn options and request version and
// judges the answer.
func (w *world) deleteUsed(tp *sim.Tape) {
	ver := []string{"v1", "v1beta1"}[tp.Next(2)]
	var opts []client.DeleteOption
	switch tp.Next(4) {
	case 1:
		opts = append(opts, client.PropagationPolicy(metav1.DeletePropagationForeground))
	case 2:
		opts = append(opts, client.PropagationPolicy(metav1.DeletePropagationBackground))
	case 3:
		opts = append(opts, client.PropagationPolicy(metav1.DeletePropagationOrphan))
	}
	ready, naming := w.protectors()
	if before := w.exists(widgetGK, "db"); before != nil && (&unstructured.Unstructured{Object: before}).GetDeletionTimestamp() != nil {
		// already being deleted (an earlier, allowed delete is waiting for the
		// garbage collector): nothing to judge
		w.S.Probe("delete-of-terminating-resource")
		return
	}
	d := &unstructured.Unstructured{}
	d.SetGroupVersionKind(widgetGK.WithVersion(ver))
	d.SetName("db")
	err := w.direct.Delete(context.Background(), d)
	lastPolicy := string(metav1.DeletePropagationBackground) // what a request without a policy means
	if len(opts) > 0 {
		// (the first attempt above used default options; try the drawn ones too when it was refused)
		if err != nil {
			err = w.direct.Delete(context.Background(), d, opts...)
			lastPolicy = string(*(&client.DeleteOptions{}).ApplyOptions(opts).PropagationPolicy)
		}
	}
	w.deletes++
	after := w.exists(widgetGK, "db")
	gone := after == nil || (&unstructured.Unstructured{Object: after}).GetDeletionTimestamp() != nil
	switch {
	case len(ready) > 0:
		w.S.Probe("delete-of-protected-resource")
		if err == nil || gone {
			sig := "C19/in-use-resource-deleted"
			// was the resource unprotected because the deletion reconcile of another
			// Usage took the in-use marker away while a ready Usage existed? (the
			// admission webhook is only called for marked resources)
			for i := len(w.Store.Log) - 1; i >= 0 && i > len(w.Store.Log)-600; i-- {
				l := w.Store.Log[i]
				if l.Read || l.Key.Kind != "Widget" || l.Key.Name != "db" || l.Before == nil || l.After == nil || l.Err != nil {
					continue
				}
				had := (&unstructured.Unstructured{Object: l.Before}).GetLabels()[inUse] == "true"
				has := (&unstructured.Unstructured{Object: l.After}).GetLabels()[inUse] == "true"
				if had && !has {
					if l.Actor == "usage-controller" {
						sig += "/marker-removed-by-concurrent-usage-deletion"
						if w.retriedWrite(l) {
							sig += "/on-a-retry-within-one-reconcile"
						}
					}
					break
				}
				if has {
					break
				}
			}
			w.S.Violate(sig, fmt.Sprintf("DELETE Widget db (%s) succeeded although ready Usage(s) %v protect it", ver, ready))
			return
		}
		ann := (&unstructured.Unstructured{Object: after}).GetAnnotations()["usage.crossplane.io/deletion-attempt-with-policy"]
		if ann == "" {
			w.S.Violate("C19/refused-delete-not-recorded", fmt.Sprintf("DELETE Widget db (%s) was refused but the attempt was not recorded on the resource", ver))
		} else if ann != lastPolicy {
			// every refused attempt is recorded: the record is the policy of the
			// latest refused request (it is what the delayed deletion replays)
			w.S.Violate("C19/refused-delete-not-recorded/stale-policy", fmt.Sprintf("DELETE Widget db (%s, policy %s) was refused but the resource still records an earlier attempt (%s)", ver, lastPolicy, ann))
		} else {
			w.S.Probe("refused-delete-recorded-with-its-policy/" + lastPolicy)
		}
	case len(naming) == 0:
		w.S.Probe("delete-of-unused-resource")
		if err != nil {
			w.S.Violate("C19/unused-resource-delete-refused", fmt.Sprintf("DELETE Widget db (%s) was refused although no Usage names it: %v", ver, err))
		}
	default:
		w.S.Probe("delete-while-usage-not-ready")
	}
}

// admit is the API server's admission step for the no-usages webhook.
func (w *world) admit(req *simapi.AdmissionRequest, sel labels.Selector, ops map[string]bool) error {
	if !ops[req.Operation] && !ops["*"] {
		return nil
	}
	obj := req.Old
	if obj == nil {
		obj = req.New
	}
	if !sel.Matches(labels.Set((&unstructured.Unstructured{Object: obj}).GetLabels())) {
		return nil
	}
	old := kruntime.DeepCopyJSON(obj)
	old["apiVersion"] = req.GVK.GroupVersion().String()
	raw, _ := json.Marshal(old)
	do := metav1.DeleteOptions{PropagationPolicy: req.Options.Propagation}
	oraw, _ := json.Marshal(do)
	w.S.Probe("webhook-called")
	resp := w.handler.Handle(sim.WithNoYield(context.Background()), admission.Request{AdmissionRequest: admissionv1.AdmissionRequest{
		Operation: admissionv1.Operation(req.Operation), Name: req.Key.Name,
		OldObject: kruntime.RawExtension{Raw: raw}, Options: kruntime.RawExtension{Raw: oraw}}})
	if resp.Allowed {
		return nil
	}
	st := metav1.Status{Status: metav1.StatusFailure, Code: http.StatusForbidden, Reason: metav1.StatusReasonForbidden, Message: "admission webhook \"nousages.apiextensions.crossplane.io\" denied the request"}
	if resp.Result != nil {
		st.Code = resp.Result.Code
		st.Message += ": " + string(resp.Result.Reason) + resp.Result.Message
	}
	return &kerrors.StatusError{ErrStatus: st}
}

func hasFin(m map[string]any, f string) bool {
	if m == nil {
		return false
	}
	for _, x := range (&unstructured.Unstructured{Object: m}).GetFinalizers() {
		if x == f {
			return true
		}
	}
	return false
}

// retriedWrite: the reconcile that committed write l had already had a write
// to the same object fail (a conflict, say) - it went on with what it had
// learned before that failure instead of looking again.
func (w *world) retriedWrite(l *simapi.LogEntry) bool {
	for i := l.Seq - 1; i >= 0 && i > l.Seq-400; i-- {
		p := w.Store.Log[i]
		if p.TaskID == l.TaskID && p.Key == l.Key && !p.Read && (p.Err != nil || p.Injected != "") {
			return true
		}
	}
	return false
}

// onLog: ordering oracles on committed writes of the usage controller.
func (w *world) onLog(e *simapi.LogEntry) {
	if e.Read || e.Injected != "" || e.DryRun || e.Err != nil || e.Actor != "usage-controller" {
		return
	}
	switch {
	case e.Key.Kind == "Usage":
		// the Usage becomes ready: marker on the used resource, owner reference to the user
		if !condTrue(e.Before, "Ready") && condTrue(e.After, "Ready") {
			w.S.Probe("usage-became-ready")
			used, _, _ := unstructured.NestedString(e.After, "spec", "of", "resourceRef", "name")
			um := w.exists(widgetGK, used)
			if um == nil {
				// the used resource vanished while the reconcile ran: nothing to protect
				w.S.Probe("ready-for-vanished-resource")
			} else if (&unstructured.Unstructured{Object: um}).GetLabels()[inUse] != "true" {
				sig := "C19/ready-before-in-use-marker"
				// was the marker there while this reconcile ran and taken away by the
				// deletion reconcile of another Usage in the meantime?
				for i := len(w.Store.Log) - 1; i >= 0 && i > len(w.Store.Log)-400; i-- {
					l := w.Store.Log[i]
					if l.Read || l.Key.Kind != "Widget" || l.Key.Name != used || l.Before == nil || l.After == nil {
						continue
					}
					had := (&unstructured.Unstructured{Object: l.Before}).GetLabels()[inUse] == "true"
					has := (&unstructured.Unstructured{Object: l.After}).GetLabels()[inUse] == "true"
					if had && !has {
						if l.TaskID != e.TaskID && l.Actor == "usage-controller" {
							sig += "/removed-by-concurrent-usage-deletion"
							if w.retriedWrite(l) {
								sig += "/on-a-retry-within-one-reconcile"
							}
						}
						break
					}
				}
				w.S.Violate(sig, fmt.Sprintf("Usage %s reports ready but Widget %q does not carry the in-use marker", e.Key.Name, used))
			}
			if by, _, _ := unstructured.NestedString(e.After, "spec", "by", "resourceRef", "name"); by != "" {
				// owned (by UID: a re-created resource of the same name is a different
				// object) by the using resource this reconcile itself read; nothing to
				// judge if it read none
				var g map[string]any
				for i := len(w.Store.Log) - 1; i >= 0 && i > len(w.Store.Log)-400; i-- {
					l := w.Store.Log[i]
					if l.Read && l.TaskID == e.TaskID && l.Verb == "get" && l.Key.Kind == "Gadget" && l.Key.Name == by && l.Err == nil && l.After != nil {
						g = l.After
						break
					}
				}
				owned := g == nil
				if g != nil {
					uid := (&unstructured.Unstructured{Object: g}).GetUID()
					for _, o := range (&unstructured.Unstructured{Object: e.After}).GetOwnerReferences() {
						owned = owned || o.UID == uid
					}
				}
				if !owned {
					w.S.Violate("C19/ready-usage-not-owned-by-user", fmt.Sprintf("Usage %s reports ready but is not owned by its using resource %s", e.Key.Name, by))
				}
			}
		}
		// C08: a composed Usage is finalized only after its using resource is gone
		if hasFin(e.Before, finUsage) && !hasFin(e.After, finUsage) {
			by, _, _ := unstructured.NestedString(e.Before, "spec", "by", "resourceRef", "name")
			composed := (&unstructured.Unstructured{Object: e.Before}).GetLabels()["crossplane.io/composite"] != ""
			if by != "" && composed {
				w.S.Probe("composed-usage-finalized")
				// the reconcile that lets the Usage go has looked for the using resource
				// (by type and name, as spec.by identifies it) and found none
				for i := len(w.Store.Log) - 1; i >= 0 && i > len(w.Store.Log)-400; i-- {
					l := w.Store.Log[i]
					if l.Read && l.TaskID == e.TaskID && l.Verb == "get" && l.Key.Kind == "Gadget" && l.Key.Name == by && l.Injected == "" {
						if l.Err == nil && l.After != nil {
							w.S.Violate("C08/composed-usage-finalized-before-user-gone", fmt.Sprintf("composed Usage %s lost its finalizer in a reconcile that had just read its using resource %s (it exists)", e.Key.Name, by))
						}
						break
					}
				}
				// the using resource the Usage was bound to (by UID; a new object of
				// the same name is a different resource)
				for _, o := range (&unstructured.Unstructured{Object: e.Before}).GetOwnerReferences() {
					if o.Kind != "Gadget" {
						continue
					}
					if g := w.exists(gadgetGVK.GroupKind(), o.Name); g != nil && (&unstructured.Unstructured{Object: g}).GetUID() == o.UID {
						w.S.Violate("C08/composed-usage-finalized-before-user-gone", fmt.Sprintf("composed Usage %s lost its finalizer while its using resource %s still exists", e.Key.Name, by))
					}
				}
			}
		}
	case e.Key.Kind == "Widget":
		// the marker is removed only by the last remaining Usage of the resource
		bl := e.Before != nil && (&unstructured.Unstructured{Object: e.Before}).GetLabels()[inUse] == "true"
		al := e.After != nil && (&unstructured.Unstructured{Object: e.After}).GetLabels()[inUse] == "true"
		if bl && !al && !e.Removed {
			w.S.Probe("in-use-marker-removed")
			// Usages that named the resource when the remover last listed them and
			// still do (a Usage created after that list re-adds the marker itself
			// before it reports ready)
			listed := -1
			for i := len(w.Store.Log) - 1; i >= 0; i-- {
				if l := w.Store.Log[i]; l.TaskID == e.TaskID && l.Read && l.Verb == "list" && l.Key.Kind == "Usage" {
					listed = l.Seq
					break
				}
			}
			_, naming := w.protectors()
			var others []string
			for _, n := range naming {
				k := simapi.ObjKey{Group: usageGVK.Group, Kind: usageGVK.Kind, Name: n}
				old := w.Store.StateAt(listed, k)
				if old == nil || (&unstructured.Unstructured{Object: old}).GetUID() != (&unstructured.Unstructured{Object: w.Store.Peek(k)}).GetUID() {
					continue
				}
				// it must already have named the resource then (a selector may have been unresolved)
				if on, _, _ := unstructured.NestedString(old, "spec", "of", "resourceRef", "name"); on == e.Key.Name {
					others = append(others, n)
				}
			}
			if len(others) > 1 {
				sort.Strings(others)
				w.S.Violate("C19/marker-removed-while-usages-remain", fmt.Sprintf("the in-use marker of Widget %s was removed while Usages %v still name it", e.Key.Name, others))
			}
		}
	}
}

// finalProbe: deleting the user releases the used resource.
func (w *world) finalProbe() {
	w.S.Phase = "probe"
	ctx := context.Background()
	if w.exists(widgetGK, "db") == nil {
		return
	}
	for _, n := range []string{"app1", "app2"} {
		g := &unstructured.Unstructured{}
		g.SetGroupVersionKind(gadgetGVK)
		g.SetName(n)
		_ = w.direct.Delete(ctx, g)
	}
	// Usages without a user are deleted by their owner here (the test's user)
	for _, u := range w.usages {
		m := w.exists(usageGVK.GroupKind(), u.name)
		if m == nil {
			continue
		}
		// a Usage that never got bound to a user (no owner reference) is nobody's
		// dependent: its creator deletes it
		if u.by == "" || len((&unstructured.Unstructured{Object: m}).GetOwnerReferences()) == 0 {
			_ = w.direct.Delete(ctx, w.usageObj(u))
		}
	}
	for i := 0; i < 10; i++ {
		for _, k := range w.Store.GCCandidates() {
			w.Store.GCStep(k)
		}
		for _, c := range w.Ctrls {
			for _, k := range c.Keys() {
				w.RunOne(c, k, 3000)
			}
		}
		w.S.Advance(3 * time.Second)
		w.Drain(2000)
		if len(w.Store.KeysOf(usageGVK.GroupKind())) == 0 {
			break
		}
	}
	if n := len(w.Store.KeysOf(usageGVK.GroupKind())); n > 0 {
		w.Res.Inconclusive = "usages-not-released"
		return
	}
	if w.exists(widgetGK, "db") == nil {
		w.S.Probe("used-resource-gone-by-replayed-deletion")
		return
	}
	d := &unstructured.Unstructured{}
	d.SetGroupVersionKind(widgetGK.WithVersion("v1"))
	d.SetName("db")
	if err := w.direct.Delete(ctx, d); err != nil {
		w.S.Violate("C19/released-resource-still-protected", fmt.Sprintf("all users and Usages are gone but DELETE Widget db is refused: %v", err))
	}
	w.S.Probe("release-probed")
}
