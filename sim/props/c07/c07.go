// Package c07 checks property C07: claim and XR exchange exactly the fields
// each side owns (DESIGN.md §7 C07).
package c07

import (
	"context"
	"fmt"
	"reflect"
	"sort"
	"strings"
	"testing"

	"k8s.io/apimachinery/pkg/apis/meta/v1/unstructured"
	"k8s.io/apimachinery/pkg/types"
	"sigs.k8s.io/controller-runtime/pkg/reconcile"

	"github.com/crossplane/crossplane/verifsim/kit"
	"github.com/crossplane/crossplane/verifsim/runner"
	"github.com/crossplane/crossplane/verifsim/sim"
	"github.com/crossplane/crossplane/verifsim/simapi"
	"github.com/crossplane/crossplane/verifsim/simfn"
	"github.com/crossplane/crossplane/verifsim/xrworld"
)

type prop struct{}

func init() { runner.Register(prop{}) }

func (prop) ID() string { return "C07" }

func (prop) Describe() runner.Description {
	return runner.Description{
		World:       "W-claim: real claim reconciler with the client-side or the server-side-apply syncer (drawn per run), real XR reconciler writing XR-owned fields in between",
		Real:        xrworld.RealComponents,
		Stub:        xrworld.StubComponents,
		Assumptions: kit.APIAssumptions,
		Rule:        "one case = one seeded run (claims valid for the generated claim CRD: user fields incl. nested objects whose keys collide with machinery names, every subset of selection fields, Manual/Automatic/unset policy, reserved and unreserved label/annotation keys; user edits that change and remove fields; XR reconciles that write resourceRefs, revision refs, status and connection bookkeeping in between; first sync and re-sync; API faults); non-trivial = at least one fault fired or two tasks interleaved; distinct = distinct trace hash",
		FaultKinds:  []string{"err-before", "err-after", "conflict", "crash-before", "crash-after"},
	}
}

// The partition, written from the API documentation of claims and composites
// (apis/, docs), not from internal/xcrd tables.
var (
	// fields of the XRD's own schema in this world (user-defined)
	userSpec   = []string{"size", "mode", "fatalStep", "xrReady", "items", "drop", "readyNames", "nested", "user"}
	userStatus = []string{"seen", "extras", "note", "nested"}
	// composition selection: claim -> XR
	selection = []string{"compositionRef", "compositionSelector", "compositionRevisionSelector", "compositionUpdatePolicy"}
	// claim-only machinery: never on the XR
	claimOnly = []string{"resourceRef", "compositeDeletePolicy"}
	// XR-owned: preserved by a sync
	xrOwned = []string{"resourceRefs", "claimRef", "writeConnectionSecretToRef"}
)

type state struct {
	w      *xrworld.W
	wl     *xrworld.Workload
	claims []*claim
	cmTask map[int]types.NamespacedName
	ssa    bool
}

type claim struct {
	xrworld.ClaimSpec
	nested map[string]any
	user   string
	userEN bool // the user (not the XR side) put the external name on the claim
}

func (prop) Run(t *testing.T, s *sim.Sim, res *runner.Result) {
	st := &state{cmTask: map[int]types.NamespacedName{}}
	xrworld.Run(s, res, xrworld.Hooks{
		Opts: func(tp *sim.Tape) xrworld.Opts {
			st.ssa = tp.Next(2) == 1
			return xrworld.Opts{Claims: true, SSAClaims: st.ssa}
		},
		NoXRs:    true,
		Params:   xrworld.DrawParams{ForcePipeline: true, Conditions: true, Conn: true},
		Faults:   []sim.Outcome{sim.ErrBefore, sim.ErrAfter, sim.Conflict, sim.CrashBefore, sim.CrashAfter},
		MaxChaos: 220,
		Setup: func(w *xrworld.W, wl *xrworld.Workload) error {
			// the pipeline also writes user status fields incl. a nested one whose keys look like machinery
			if len(wl.Steps) > 0 {
				last := &wl.Steps[len(wl.Steps)-1]
				last.Ops = append(last.Ops, simfn.Op{"op": "status", "field": "nested", "value": map[string]any{"conditions": "user-data", "connectionDetails": map[string]any{"lastPublishedTime": "user"}, "claimConditionTypes": "x"}},
					simfn.Op{"op": "status", "field": "note", "value": "from-xr"})
				u := &unstructured.Unstructured{}
				u.SetGroupVersionKind(xrworld.CompGVK)
				if err := w.Direct.Get(context.Background(), types.NamespacedName{Name: "comp"}, u); err == nil {
					m, _ := simapi.ToMap(wl.Composition())
					u.Object["spec"] = m["spec"]
					_ = w.Direct.Update(context.Background(), u)
				}
			}
			return nil
		},
		Started: func(w *xrworld.W, wl *xrworld.Workload) {
			st.w, st.wl = w, wl
			tp := s.Tape
			n := 1 + tp.Next(2)
			for i := 0; i < n; i++ {
				c := &claim{}
				c.Name, c.NS = fmt.Sprintf("c%d", i), "default"
				c.Items = []string{"a"}
				c.Size = int64(1 + tp.Next(3))
				c.DeletePolicy = []string{"", "Background", "Foreground"}[tp.Next(3)]
				c.UpdatePolicy = []string{"", "Automatic", "Manual"}[tp.Next(3)]
				c.WriteConn = tp.Next(2) == 1
				st.mutate(c, tp)
				st.claims = append(st.claims, c)
				_ = w.Direct.Create(context.Background(), st.object(c))
			}
			w.OnStart = func(ctrl string, key types.NamespacedName, tk *sim.Task) {
				if strings.HasPrefix(ctrl, "claim/") {
					st.cmTask[tk.ID] = key
				}
			}
			w.Store.OnLog = append(w.Store.OnLog, st.onLog)
			w.OnClaimDone = func(key types.NamespacedName, tk *sim.Task, startSeq int, r reconcile.Result, err error) {
				if err == nil && tk.Normal {
					st.judgeExternalNameReachedClaim(key, tk, startSeq)
				}
			}
			res.Counters[map[bool]string{true: "syncer-ssa", false: "syncer-csa"}[st.ssa]]++
		},
		Env: func(w *xrworld.W, wl *xrworld.Workload) []sim.Action {
			var acts []sim.Action
			for _, c := range st.claims {
				c := c
				acts = append(acts, sim.Action{Key: "user edits claim " + c.Name, Weight: 5, Run: func() { st.edit(c, s.Tape) }})
			}
			acts = append(acts, sim.Action{Key: "the XR side records an external name on an XR", Weight: 2, Run: func() { st.nameXR(s.Tape) }})
			return acts
		},
		Final: func(w *xrworld.W, wl *xrworld.Workload, quiet bool) {
			if !quiet {
				w.S.Probe("no-quiescence")
			}
		},
	})
}

// mutate draws the user-owned content of a claim.
func (st *state) mutate(c *claim, tp *sim.Tape) {
	switch tp.Next(4) {
	case 0:
		c.nested = nil
	case 1:
		c.nested = map[string]any{"resourceRef": map[string]any{"name": "user-data"}, "compositionRef": "user", "writeConnectionSecretToRef": map[string]any{"name": "u"}}
	case 2:
		c.nested = map[string]any{"claimRef": "user", "resourceRefs": []any{"u1"}, "compositeDeletePolicy": "user", "deep": map[string]any{"compositionRevisionRef": "user"}}
	case 3:
		c.nested = map[string]any{"plain": int64(tp.Next(3))}
	}
	c.user = []string{"", "u1", "u2"}[tp.Next(3)]
	c.Labels = map[string]string{"team": []string{"a", "b"}[tp.Next(2)]}
	c.Annotations = map[string]string{"note": []string{"x", "y"}[tp.Next(2)]}
	if tp.Next(4) == 0 {
		c.Annotations = map[string]string{} // no unreserved annotation at all
	}
	if tp.Next(2) == 1 {
		c.Labels["app.kubernetes.io/name"] = "reserved"
		c.Annotations["kubectl.kubernetes.io/last-applied-configuration"] = "{}"
		c.Annotations["foo.k8s.io/y"] = "reserved"
	}
	c.Size = int64(1 + tp.Next(3))
	c.Mode = []string{"", "fast"}[tp.Next(2)]
	// now and then the user gives the claim an external name of its own
	if tp.Next(3) == 0 {
		c.Annotations["crossplane.io/external-name"] = "claim-en-" + []string{"a", "b"}[tp.Next(2)]
	}
}

// nameXR: the XR side (a function, a provider) records an external name on the
// XR; from then on it is the XR's to keep.
func (st *state) nameXR(tp *sim.Tape) {
	xrs := st.w.XRObjects()
	if len(xrs) == 0 {
		return
	}
	x := xrs[tp.Next(len(xrs))].DeepCopy()
	as := x.GetAnnotations()
	if as == nil {
		as = map[string]string{}
	}
	as["crossplane.io/external-name"] = fmt.Sprintf("xr-en-%d", tp.Next(3))
	x.SetAnnotations(as)
	if st.w.Direct.Update(context.Background(), x) == nil {
		st.w.S.Probe("external-name-set-on-xr")
	}
}

func (st *state) object(c *claim) *unstructured.Unstructured {
	u := c.ClaimSpec.Object()
	st.apply(c, u)
	return u
}

func (st *state) apply(c *claim, u *unstructured.Unstructured) {
	c.ClaimSpec.ApplyTo(u)
	if c.nested != nil {
		_ = unstructured.SetNestedMap(u.Object, c.nested, "spec", "nested")
	} else {
		unstructured.RemoveNestedField(u.Object, "spec", "nested")
	}
	if c.user != "" {
		_ = unstructured.SetNestedField(u.Object, c.user, "spec", "user")
	} else {
		unstructured.RemoveNestedField(u.Object, "spec", "user")
	}
	// labels/annotations: keep what controllers added, replace the user's
	ls := u.GetLabels()
	if ls == nil {
		ls = map[string]string{}
	}
	for _, k := range []string{"team", "app.kubernetes.io/name"} {
		delete(ls, k)
	}
	for k, v := range c.Labels {
		ls[k] = v
	}
	u.SetLabels(ls)
	as := u.GetAnnotations()
	if as == nil {
		as = map[string]string{}
	}
	for _, k := range []string{"note", "kubectl.kubernetes.io/last-applied-configuration", "foo.k8s.io/y"} {
		delete(as, k)
	}
	// an external name the user had given the claim and now takes away again
	if _, wants := c.Annotations["crossplane.io/external-name"]; !wants && c.userEN {
		delete(as, "crossplane.io/external-name")
	}
	_, c.userEN = c.Annotations["crossplane.io/external-name"]
	for k, v := range c.Annotations {
		as[k] = v
	}
	u.SetAnnotations(as)
}

func (st *state) edit(c *claim, tp *sim.Tape) {
	st.mutate(c, tp)
	u := st.w.ClaimObj(&c.ClaimSpec)
	if u == nil || u.GetDeletionTimestamp() != nil {
		return
	}
	st.apply(c, u)
	_ = st.w.Direct.Update(context.Background(), u)
}

// judgeExternalNameReachedClaim: a reconcile that ran to the end without error
// leaves the claim carrying the external name its XR had when the reconcile
// read it (the XR's external name reaches the claim).
func (st *state) judgeExternalNameReachedClaim(key types.NamespacedName, tk *sim.Task, startSeq int) {
	w := st.w
	var xrSeen, claimLeft map[string]any
	faulted := len(tk.FaultSteps) > 0
	for _, e := range w.Store.Log[startSeq:] {
		if e.TaskID != tk.ID || e.Err != nil || e.Injected != "" || e.DryRun || e.After == nil {
			continue
		}
		// the XR as this reconcile first read it (a name the XR side records
		// later is copied by the next reconcile)
		if e.Key.Kind == xrworld.XRGVK.Kind && e.Key.Group == xrworld.XRGVK.Group && e.Read && xrSeen == nil {
			xrSeen = e.After
		}
		if e.Key.Kind == xrworld.ClaimGVK.Kind && e.Key.Group == xrworld.ClaimGVK.Group && e.Key.Name == key.Name && e.Key.NS == key.Namespace {
			claimLeft = e.After
		}
	}
	if xrSeen == nil || claimLeft == nil || faulted {
		return
	}
	// a user edit of the claim or an XR-side change of the name while the
	// reconcile ran leaves nothing definite to compare
	for _, e := range w.Store.Log[startSeq:] {
		if e.TaskID == tk.ID || e.Read || e.Err != nil || e.Injected != "" {
			continue
		}
		if (e.Key.Kind == xrworld.ClaimGVK.Kind && e.Key.Name == key.Name && e.Key.NS == key.Namespace) ||
			(e.Key.Kind == xrworld.XRGVK.Kind && e.Key.Name == (&unstructured.Unstructured{Object: xrSeen}).GetName() && e.Actor == "user") {
			return
		}
	}
	if (&unstructured.Unstructured{Object: claimLeft}).GetDeletionTimestamp() != nil {
		return
	}
	// only judged when this reconcile synced (it wrote the XR or found nothing to write and updated the claim's status)
	xen := (&unstructured.Unstructured{Object: xrSeen}).GetAnnotations()["crossplane.io/external-name"]
	if xen == "" {
		return
	}
	cur := w.Store.Peek(simapi.ObjKey{Group: xrworld.ClaimGVK.Group, Kind: xrworld.ClaimGVK.Kind, NS: key.Namespace, Name: key.Name})
	if cur == nil {
		return
	}
	bound := false
	for _, e := range w.Store.Log[startSeq:] {
		if e.TaskID == tk.ID && !e.Read && e.Err == nil && e.Key.Kind == xrworld.ClaimGVK.Kind && e.Verb == "update-status" {
			bound = true
		}
	}
	if !bound {
		return
	}
	if cen := (&unstructured.Unstructured{Object: claimLeft}).GetAnnotations()["crossplane.io/external-name"]; cen != xen {
		// the status write answers with the stored object: the annotation must have been persisted by then
		if now := (&unstructured.Unstructured{Object: cur}).GetAnnotations()["crossplane.io/external-name"]; now != xen {
			w.S.Violate("C07/xr-external-name-not-on-claim", fmt.Sprintf("claim %s finished a reconcile that saw its XR with external name %q, but the claim carries %q", key, xen, now))
			return
		}
	}
	w.S.Probe("external-name-reached-claim")
}

func specOf(m map[string]any) map[string]any {
	s, _, _ := unstructured.NestedMap(m, "spec")
	if s == nil {
		s = map[string]any{}
	}
	return s
}

func reserved(k string) bool {
	d := strings.Split(k, "/")[0]
	return strings.HasSuffix(d, "kubernetes.io") || strings.HasSuffix(d, "k8s.io")
}

// onLog judges every write a claim reconcile commits on the XR and on the claim.
func (st *state) onLog(e *simapi.LogEntry) {
	w := st.w
	if e.Read || e.Injected != "" || e.Err != nil || e.DryRun || e.After == nil {
		return
	}
	ck, ok := st.cmTask[e.TaskID]
	if !ok {
		return
	}
	switch {
	case e.Key.Group == xrworld.XRGVK.Group && e.Key.Kind == xrworld.XRGVK.Kind && e.Verb != "delete":
		// the claim as this reconcile read it
		cm := st.claimSeen(e.TaskID, ck)
		if cm == nil {
			return
		}
		st.judgeClaimToXR(ck, cm, e)
	case e.Key.Group == xrworld.ClaimGVK.Group && e.Key.Kind == xrworld.ClaimGVK.Kind && e.Before != nil:
		st.judgeXRToClaim(ck, e)
	}
	_ = w
}

// claimSeen: the claim as the task last read or wrote it.
func (st *state) claimSeen(taskID int, ck types.NamespacedName) map[string]any {
	for i := len(st.w.Store.Log) - 1; i >= 0; i-- {
		l := st.w.Store.Log[i]
		if l.TaskID == taskID && l.Key.Kind == xrworld.ClaimGVK.Kind && l.Key.Name == ck.Name && l.Key.NS == ck.Namespace && l.After != nil && l.Err == nil && l.Injected == "" {
			return l.After
		}
	}
	return nil
}

func (st *state) judgeClaimToXR(ck types.NamespacedName, cm map[string]any, e *simapi.LogEntry) {
	w := st.w
	cs, xs := specOf(cm), specOf(e.After)
	w.S.Probe("claim-to-xr-write-judged")
	// user-defined spec fields and selection fields propagate
	for _, f := range append(append([]string{}, userSpec...), selection...) {
		cv, has := cs[f]
		if has {
			// the client-side syncer merge-patches the XR: keys removed inside a nested
			// user object stay behind (removal is only promised for the server-side syncer)
			if !reflect.DeepEqual(cv, xs[f]) && !(!st.ssa && superset(xs[f], cv)) {
				w.S.Violate("C07/claim-field-not-propagated/"+f, fmt.Sprintf("claim %s has spec.%s=%v but the XR written by its reconcile has %v", ck, f, cv, xs[f]))
			}
		} else if st.ssa {
			// a field removed from the claim disappears from the XR (server-side syncer)
			if _, on := xs[f]; on && e.Before != nil {
				if f == "compositionRef" || f == "compositionUpdatePolicy" {
					continue // the XR side selects/defaults these when the claim has no opinion
				}
				w.S.Violate("C07/removed-claim-field-kept/"+f, fmt.Sprintf("claim %s no longer has spec.%s but the XR keeps %v", ck, f, xs[f]))
			}
		}
	}
	// Manual policy: the claim's revision reference is authoritative
	if pol, _ := xs["compositionUpdatePolicy"].(string); pol == "Manual" {
		if cv, has := cs["compositionRevisionRef"]; has && !reflect.DeepEqual(cv, xs["compositionRevisionRef"]) {
			w.S.Violate("C07/manual-revision-ref-not-propagated", fmt.Sprintf("claim %s pins revision %v but the XR has %v", ck, cv, xs["compositionRevisionRef"]))
		}
	}
	// claim-only machinery never reaches the XR
	for _, f := range claimOnly {
		if v, on := xs[f]; on {
			w.S.Violate("C07/claim-machinery-on-xr/"+f, fmt.Sprintf("the XR of claim %s carries the claim-only field spec.%s=%v", ck, f, v))
		}
	}
	if cw, has := cs["writeConnectionSecretToRef"]; has && reflect.DeepEqual(cw, xs["writeConnectionSecretToRef"]) {
		w.S.Violate("C07/claim-machinery-on-xr/writeConnectionSecretToRef", fmt.Sprintf("the XR of claim %s carries the claim's own connection secret reference %v", ck, cw))
	}
	// labels and annotations: unreserved propagate, reserved never
	cu, xu := &unstructured.Unstructured{Object: cm}, &unstructured.Unstructured{Object: e.After}
	for k, v := range cu.GetLabels() {
		if reserved(k) {
			if _, on := xu.GetLabels()[k]; on {
				w.S.Violate("C07/reserved-label-propagated", fmt.Sprintf("reserved label %s of claim %s was copied to the XR", k, ck))
			}
		} else if xu.GetLabels()[k] != v {
			w.S.Violate("C07/label-not-propagated", fmt.Sprintf("label %s=%s of claim %s is %q on the XR", k, v, ck, xu.GetLabels()[k]))
		}
	}
	for k, v := range cu.GetAnnotations() {
		if k == "crossplane.io/external-name" {
			continue
		}
		if reserved(k) {
			if _, on := xu.GetAnnotations()[k]; on {
				w.S.Violate("C07/reserved-annotation-propagated", fmt.Sprintf("reserved annotation %s of claim %s was copied to the XR", k, ck))
			}
		} else if xu.GetAnnotations()[k] != v {
			w.S.Violate("C07/annotation-not-propagated", fmt.Sprintf("annotation %s=%s of claim %s is %q on the XR", k, v, ck, xu.GetAnnotations()[k]))
		}
	}
	// what the XR side owns is preserved by the sync
	if e.Before != nil {
		bs := specOf(e.Before)
		for _, f := range xrOwned {
			if bv, had := bs[f]; had && !reflect.DeepEqual(bv, xs[f]) {
				if f == "claimRef" && xs[f] != nil {
					continue // binding sets it
				}
				w.S.Violate("C07/xr-owned-field-changed/"+f, fmt.Sprintf("the sync of claim %s changed the XR-owned field spec.%s from %v to %v", ck, f, bv, xs[f]))
			}
		}
		if pol, _ := xs["compositionUpdatePolicy"].(string); pol != "Manual" {
			if bv, had := bs["compositionRevisionRef"]; had && !reflect.DeepEqual(bv, xs["compositionRevisionRef"]) {
				w.S.Violate("C07/xr-owned-field-changed/compositionRevisionRef", fmt.Sprintf("the sync of claim %s changed the XR's automatically selected revision from %v to %v", ck, bv, xs["compositionRevisionRef"]))
			}
		}
		// the external name the XR had when this reconcile read it (a name the XR
		// side records between that read and this write is not "existing" for it)
		ben := ""
		for i := len(w.Store.Log) - 1; i >= 0; i-- {
			l := w.Store.Log[i]
			if l.TaskID == e.TaskID && l.Key == e.Key && l.Err == nil && l.Injected == "" && l.After != nil && l.Seq < e.Seq && (l.Read || !l.DryRun) {
				ben = (&unstructured.Unstructured{Object: l.After}).GetAnnotations()["crossplane.io/external-name"]
				break
			}
		}
		if ben != "" && (&unstructured.Unstructured{Object: e.Before}).GetAnnotations()["crossplane.io/external-name"] != ben {
			ben = "" // the XR side changed it again meanwhile
		}
		if ben != "" && xu.GetAnnotations()["crossplane.io/external-name"] != ben {
			w.S.Violate("C07/xr-external-name-changed", fmt.Sprintf("the sync of claim %s changed the XR's existing external name %q", ck, ben))
		}
		// XR status is never written by the claim side
		bst, _, _ := unstructured.NestedMap(e.Before, "status")
		ast, _, _ := unstructured.NestedMap(e.After, "status")
		if !reflect.DeepEqual(bst, ast) {
			w.S.Violate("C07/claim-sync-changed-xr-status", fmt.Sprintf("the sync of claim %s changed the XR's status", ck))
		}
	}
}

func (st *state) judgeXRToClaim(ck types.NamespacedName, e *simapi.LogEntry) {
	w := st.w
	w.S.Probe("claim-write-judged")
	// the XR as this reconcile last observed it
	var xr map[string]any
	for i := len(w.Store.Log) - 1; i >= 0; i-- {
		l := w.Store.Log[i]
		if l.TaskID == e.TaskID && l.Key.Kind == xrworld.XRGVK.Kind && l.Key.Group == xrworld.XRGVK.Group && l.After != nil && l.Err == nil && l.Injected == "" {
			xr = l.After
			break
		}
	}
	bs, as := specOf(e.Before), specOf(e.After)
	// claim spec: only the XR reference, the composition reference when the
	// claim had none, the revision under Automatic, may change
	var changed []string
	keys := map[string]bool{}
	for k := range bs {
		keys[k] = true
	}
	for k := range as {
		keys[k] = true
	}
	for k := range keys {
		if !reflect.DeepEqual(bs[k], as[k]) {
			changed = append(changed, k)
		}
	}
	sort.Strings(changed)
	for _, k := range changed {
		switch k {
		case "resourceRef":
		case "compositionRef":
			if _, had := bs[k]; had {
				w.S.Violate("C07/claim-field-overwritten/compositionRef", fmt.Sprintf("claim %s set compositionRef %v; its reconcile changed it to %v", ck, bs[k], as[k]))
			}
		case "compositionRevisionRef":
			pol, _ := as["compositionUpdatePolicy"].(string)
			if pol == "Manual" {
				w.S.Violate("C07/claim-field-overwritten/compositionRevisionRef", fmt.Sprintf("claim %s (Manual) had its revision reference changed from %v to %v", ck, bs[k], as[k]))
			}
		default:
			claimOwned := false
			for _, u := range append(append([]string{}, userSpec...), selection...) {
				claimOwned = claimOwned || u == k
			}
			if claimOwned && !st.ssa && xr != nil {
				// the client-side syncer merges claim-owned fields that the XR has and
				// the claim lacks (in whole or inside a nested object) back into the
				// claim: long-standing merge behaviour of that syncer, and a
				// claim-owned field either way
				if reflect.DeepEqual(as[k], merged(bs[k], specOf(xr)[k])) {
					w.S.Probe("csa-merged-claim-owned-field-back")
					continue
				}
			}
			w.S.Violate("C07/xr-field-copied-to-claim-spec/"+k, fmt.Sprintf("the reconcile of claim %s changed spec.%s from %v to %v", ck, k, bs[k], as[k]))
		}
	}
	// claim status: user status fields only; never the XR's conditions or connection bookkeeping
	ast, _, _ := unstructured.NestedMap(e.After, "status")
	bst, _, _ := unstructured.NestedMap(e.Before, "status")
	allowed := map[string]bool{"conditions": true, "connectionDetails": true, "claimConditionTypes": false}
	for _, f := range userStatus {
		allowed[f] = true
	}
	for k, v := range ast {
		if reflect.DeepEqual(bst[k], v) {
			continue
		}
		if !allowed[k] {
			w.S.Violate("C07/xr-machinery-in-claim-status/"+k, fmt.Sprintf("claim %s received status.%s=%v", ck, k, v))
		}
		if k != "conditions" && k != "connectionDetails" && xr != nil {
			xst, _, _ := unstructured.NestedMap(xr, "status")
			if !reflect.DeepEqual(xst[k], v) {
				w.S.Violate("C07/claim-status-field-not-from-xr/"+k, fmt.Sprintf("claim %s received status.%s=%v but its XR has %v", ck, k, v, xst[k]))
			}
		}
	}
	// conditions: the claim's own Ready/Synced, plus types the XR lists for its claim
	var xrTypes []any
	if xr != nil {
		xrTypes, _, _ = unstructured.NestedSlice(xr, "status", "claimConditionTypes")
	}
	conds, _, _ := unstructured.NestedSlice(e.After, "status", "conditions")
	for _, c := range conds {
		cm, _ := c.(map[string]any)
		typ, _ := cm["type"].(string)
		if typ == "Ready" || typ == "Synced" {
			continue
		}
		ok := false
		for _, x := range xrTypes {
			ok = ok || x == typ
		}
		// only what this write put there: a condition the claim carried already
		// (published earlier, when the XR still listed it) is not a copy made now
		if b := cond(e.Before, typ); b != nil && b["status"] == cm["status"] && b["reason"] == cm["reason"] && b["message"] == cm["message"] {
			ok = true
		}
		if !ok {
			w.S.Violate("C07/xr-condition-copied-to-claim", fmt.Sprintf("claim %s carries condition %s, which its XR does not publish to the claim", ck, typ))
		}
	}
	// the XR's connection bookkeeping is never copied
	if xr != nil {
		xt, _, _ := unstructured.NestedString(xr, "status", "connectionDetails", "lastPublishedTime")
		ct, _, _ := unstructured.NestedString(e.After, "status", "connectionDetails", "lastPublishedTime")
		bt, _, _ := unstructured.NestedString(e.Before, "status", "connectionDetails", "lastPublishedTime")
		if xt != "" && ct == xt && bt != ct {
			// equal timestamps can coincide on the fake clock only when both were published in the same instant
			w.S.Probe("claim-and-xr-published-at-same-instant")
		}
	}
}

// superset reports whether a contains everything b has (maps recursively; other values equal).
func superset(a, b any) bool {
	am, aok := a.(map[string]any)
	bm, bok := b.(map[string]any)
	if aok && bok {
		for k, bv := range bm {
			av, ok := am[k]
			if !ok || !superset(av, bv) {
				return false
			}
		}
		return true
	}
	return reflect.DeepEqual(a, b)
}

// merged fills what dst lacks from src (maps recursively), never overriding.
func merged(dst, src any) any {
	if dst == nil {
		return src
	}
	dm, dok := dst.(map[string]any)
	sm, sok := src.(map[string]any)
	if !dok || !sok {
		return dst
	}
	out := map[string]any{}
	for k, v := range dm {
		out[k] = v
	}
	for k, v := range sm {
		out[k] = merged(out[k], v)
	}
	return out
}

func cond(obj map[string]any, typ string) map[string]any {
	if obj == nil {
		return nil
	}
	conds, _, _ := unstructured.NestedSlice(obj, "status", "conditions")
	for _, c := range conds {
		if m, _ := c.(map[string]any); m != nil && m["type"] == typ {
			return m
		}
	}
	return nil
}
