// Package c01 checks property C01: composed resources are never leaked or
// duplicated, whatever fails mid-reconcile (DESIGN.md §7 C01).
package c01

import (
	"context"
	"fmt"
	kerrors "k8s.io/apimachinery/pkg/api/errors"
	"k8s.io/apimachinery/pkg/apis/meta/v1/unstructured"
	"testing"

	"github.com/crossplane/crossplane/verifsim/kit"
	"github.com/crossplane/crossplane/verifsim/runner"
	"github.com/crossplane/crossplane/verifsim/sim"
	"github.com/crossplane/crossplane/verifsim/xrworld"
)

type prop struct{}

func init() { runner.Register(prop{}) }

func (prop) ID() string { return "C01" }

func (prop) Describe() runner.Description {
	return runner.Description{
		World:       "W-xr: real XRD controller -> real XR reconciler (function pipeline and patch-and-transform composers) on the simulated API server",
		Real:        xrworld.RealComponents,
		Stub:        xrworld.StubComponents,
		Assumptions: kit.APIAssumptions,
		Rule:        "one case = one seeded run (workload: 1-2 XRs, pipeline or named P&T templates, XR/Composition edits; schedule, faults and crashes from the tape); non-trivial = at least one fault fired or two tasks interleaved; distinct = distinct trace hash",
		FaultKinds:  []string{"err-before", "err-after", "conflict", "crash-before", "crash-after"},
	}
}

func (prop) Run(t *testing.T, s *sim.Sim, res *runner.Result) {
	xrworld.Run(s, res, xrworld.Hooks{
		Opts: func(tp *sim.Tape) xrworld.Opts {
			lag := tp.Next(2) == 1
			return xrworld.Opts{LagComposed: lag, LagManual: lag && tp.Next(2) == 1}
		},
		// Strict: templates with a required patch whose source the XR may lack (a
		// template that stops rendering and renders again later), and a composed
		// kind that rejects some applies
		Params: xrworld.DrawParams{Strict: true, NameGames: true},
		Faults: []sim.Outcome{sim.ErrBefore, sim.ErrAfter, sim.Conflict, sim.CrashBefore, sim.CrashAfter, sim.Stale},
		Env: func(w *xrworld.W, wl *xrworld.Workload) []sim.Action {
			cs := w.ComposedObjects()
			if len(cs) == 0 {
				return nil
			}
			// a provider reports on a composed resource (its resource version moves)
			return []sim.Action{{Key: "a provider updates the status of a composed resource", Weight: 4, Run: func() {
				c := cs[s.Tape.Next(len(cs))]
				u := c.Obj.DeepCopy()
				_ = unstructured.SetNestedField(u.Object, fmt.Sprintf("p%d", s.Tape.Next(1000)), "status", "phase")
				_ = w.Direct.Status().Update(context.Background(), u)
			}}}
		},
		Observe: func(w *xrworld.W, wl *xrworld.Workload) {
			observe(w)
		},
		Final: func(w *xrworld.W, wl *xrworld.Workload, quiet bool) {
			if !quiet {
				// a template that cannot render (required patch source missing) has a
				// fresh name generated and recorded at every reconcile: no fixpoint,
				// and not what this property is about
				for _, tm := range wl.Templates {
					for _, x := range wl.XRs {
						if !wl.Pipeline && tm.Enabled && tm.RequireMode && x.Mode == "" {
							w.S.Probe("no-quiescence-while-a-template-cannot-render")
							return
						}
					}
				}
				// likewise a desired resource the API server keeps rejecting as invalid
				// is never created, so a new name is generated for it every time
				for i := len(w.Store.Log) - 1; i >= 0 && i > len(w.Store.Log)-400; i-- {
					if e := w.Store.Log[i]; !e.Read && e.Err != nil && kerrors.IsInvalid(e.Err) {
						w.S.Probe("no-quiescence-while-a-resource-is-rejected-as-invalid")
						return
					}
				}
				// I3: once converged, reconciling again changes no object. With no
				// faults and no edits the world must reach a fixpoint.
				w.S.Violate("C01/not-idempotent", "after faults stopped, repeated fault-free reconciles kept changing objects (no fixpoint within the heal budget)")
				return
			}
			w.S.Probe("quiescent")
			// every XR's desired resources exist exactly once
			observe(w)
		},
	})
}

// observe evaluates I1 (no leak) and I2 (no duplicate) on the store.
func observe(w *xrworld.W) {
	xrs := map[string]map[string]bool{} // uid -> refs
	live := map[string]string{}         // uid -> name
	for _, xr := range w.XRObjects() {
		if xr.GetDeletionTimestamp() != nil {
			continue
		}
		xrs[string(xr.GetUID())] = xrworld.Refs(xr)
		live[string(xr.GetUID())] = xr.GetName()
	}
	perName := map[string][]string{}
	for _, c := range w.ComposedObjects() {
		if c.Obj.GetDeletionTimestamp() != nil {
			continue
		}
		refs, ok := xrs[string(c.OwnerUID)]
		if !ok {
			continue // not controlled by a live XR
		}
		if !refs[xrworld.RefOf(c.Obj)] {
			w.S.Violate("C01/leaked-composed-resource", fmt.Sprintf("%s %s (resource %q) is controlled by XR %s but is not listed in its spec.resourceRefs", c.Obj.GetKind(), c.Obj.GetName(), c.ResName, live[string(c.OwnerUID)]))
		}
		k := string(c.OwnerUID) + "/" + c.ResName
		perName[k] = append(perName[k], c.Obj.GetKind()+"/"+c.Obj.GetName())
	}
	for k, objs := range perName {
		if len(objs) > 1 {
			w.S.Violate("C01/duplicate-composed-resource", fmt.Sprintf("desired resource %s has %d live composed resources: %v", k, len(objs), objs))
		}
	}
}
