// Package simfn is the simulated composition-function transport: scripted
// functions (deterministic programs of their request, described by the step's
// input) answered at the gRPC interceptor seam (DESIGN.md §6 W-xr).
package simfn

import (
	"context"
	"fmt"
	"sort"
	"strings"

	"google.golang.org/grpc"
	"google.golang.org/grpc/codes"
	"google.golang.org/grpc/status"
	"google.golang.org/protobuf/proto"
	"google.golang.org/protobuf/types/known/structpb"

	fnv1 "github.com/crossplane/crossplane/apis/apiextensions/fn/proto/v1"

	"github.com/crossplane/crossplane/verifsim/sim"
)

// Op is one instruction of a scripted function. Programs are carried in the
// pipeline step's input: {"ops":[...]}.
type Op map[string]any

// Call is one recorded function invocation.
type Call struct {
	Seq      int
	LogSeq   int // position of the API request log when the call was made
	Step     int // scheduler step of the call
	TaskID   int
	Function string // Function name the connection was created for
	Target   string // gRPC target (endpoint)
	Method   string
	Beta     bool
	Req      *fnv1.RunFunctionRequest
	Rsp      *fnv1.RunFunctionResponse
	Err      error
}

// Transport implements xfn.InterceptorCreator.
type Transport struct {
	Sim   *sim.Sim
	Proc  *sim.Proc
	Calls []*Call
	// BetaOnly lists functions that only serve the v1beta1 API.
	BetaOnly map[string]bool
	// OnCall is invoked (in the task goroutine, while the scheduler waits) after each call.
	OnCall func(*Call)
	Faults bool
	// LogSeq returns the current position of the API request log.
	LogSeq func() int
}

var fnMenu = []sim.Outcome{sim.ErrBefore, sim.CrashBefore}

// CreateInterceptor implements xfn.InterceptorCreator.
func (t *Transport) CreateInterceptor(name, _ string) grpc.UnaryClientInterceptor {
	return func(ctx context.Context, method string, req, reply any, cc *grpc.ClientConn, _ grpc.UnaryInvoker, _ ...grpc.CallOption) error {
		beta := strings.Contains(method, "v1beta1")
		menu := fnMenu
		if !t.Faults {
			menu = nil
		}
		o, _ := t.Sim.Yield(t.Proc, "fn", fmt.Sprintf("%s %s beta=%v", name, cc.Target(), beta), menu, nil)
		if err := ctx.Err(); err != nil {
			return status.FromContextError(err).Err()
		}
		c := &Call{Seq: len(t.Calls), Function: name, Target: cc.Target(), Method: method, Beta: beta}
		if tk := sim.TaskFrom(ctx); tk != nil {
			c.TaskID = tk.ID
		}
		if t.LogSeq != nil {
			c.LogSeq = t.LogSeq()
		}
		c.Step = t.Sim.Step
		t.Calls = append(t.Calls, c)
		done := func(err error) error {
			c.Err = err
			if t.OnCall != nil {
				t.OnCall(c)
			}
			return err
		}
		// wire round trip: the function sees exactly the bytes on the wire.
		b, err := proto.MarshalOptions{Deterministic: true}.Marshal(req.(proto.Message))
		if err != nil {
			return done(err)
		}
		in := &fnv1.RunFunctionRequest{}
		if err := proto.Unmarshal(b, in); err != nil {
			return done(err)
		}
		c.Req = in
		if o == sim.ErrBefore {
			return done(status.Error(codes.Unavailable, "simfn: injected transport error"))
		}
		if t.BetaOnly[name] && !beta {
			return done(status.Error(codes.Unimplemented, "unknown service apiextensions.fn.proto.v1.FunctionRunnerService"))
		}
		rsp := Run(in)
		c.Rsp = rsp
		rb, err := proto.MarshalOptions{Deterministic: true}.Marshal(rsp)
		if err != nil {
			return done(err)
		}
		if err := proto.Unmarshal(rb, reply.(proto.Message)); err != nil {
			return done(err)
		}
		return done(nil)
	}
}

func getPath(m map[string]any, path string) (any, bool) {
	var cur any = m
	for _, p := range strings.Split(path, ".") {
		mm, ok := cur.(map[string]any)
		if !ok {
			return nil, false
		}
		cur, ok = mm[p]
		if !ok {
			return nil, false
		}
	}
	return cur, true
}

func strList(v any) []string {
	var out []string
	l, _ := v.([]any)
	for _, x := range l {
		if s, ok := x.(string); ok {
			out = append(out, s)
		}
	}
	return out
}

func str(v any) string {
	s, _ := v.(string)
	return s
}

// KindFor maps a desired-resource name to its (fixed) kind: a name keeps its
// kind from one reconcile to the next.
func KindFor(name string) (apiVersion, kind string) {
	if strings.HasPrefix(name, "g") {
		return "things.example.org/v1", "Gadget"
	}
	return "things.example.org/v1", "Thing"
}

// Run interprets the program in req.Input. It is a pure function of req.
func Run(req *fnv1.RunFunctionRequest) *fnv1.RunFunctionResponse {
	rsp := &fnv1.RunFunctionResponse{Meta: &fnv1.ResponseMeta{Tag: req.GetMeta().GetTag()}}
	if d := req.GetDesired(); d != nil {
		rsp.Desired = proto.Clone(d).(*fnv1.State)
	} else {
		rsp.Desired = &fnv1.State{}
	}
	if rsp.Desired.Resources == nil {
		rsp.Desired.Resources = map[string]*fnv1.Resource{}
	}
	if c := req.GetContext(); c != nil {
		rsp.Context = proto.Clone(c).(*structpb.Struct)
	}
	xr := req.GetObserved().GetComposite().GetResource().AsMap()
	in := req.GetInput().AsMap()
	ops, _ := in["ops"].([]any)
	step := str(in["step"])
	for _, o := range ops {
		op, _ := o.(map[string]any)
		switch str(op["op"]) {
		case "emit":
			v, _ := getPath(xr, str(op["items"]))
			for _, name := range strList(v) {
				rsp.Desired.Resources[name] = &fnv1.Resource{Resource: thing(name, xr, op)}
			}
		case "emitFixed":
			name := str(op["name"])
			rsp.Desired.Resources[name] = &fnv1.Resource{Resource: thing(name, xr, op)}
		case "drop":
			v, _ := getPath(xr, str(op["items"]))
			for _, name := range strList(v) {
				delete(rsp.Desired.Resources, name)
			}
		case "blank": // keeps the entry but strips its body (no apiVersion, no kind): only "ready" remains
			names := []string{str(op["name"])}
			if p := str(op["items"]); p != "" {
				v, _ := getPath(xr, p)
				names = strList(v)
			}
			for _, n := range names {
				if r, ok := rsp.Desired.Resources[n]; ok {
					r.Resource = &structpb.Struct{}
					r.Ready = fnv1.Ready_READY_TRUE
				}
			}
		case "dropFixed":
			delete(rsp.Desired.Resources, str(op["name"]))
		case "label":
			for _, r := range rsp.Desired.Resources {
				setLabel(r.Resource, str(op["key"]), str(op["value"]))
			}
		case "nameFrom": // the function chooses metadata.name itself, derived from an XR field
			v, _ := getPath(xr, str(op["field"]))
			xn, _ := getPath(xr, "metadata.name")
			for n, r := range rsp.Desired.Resources {
				setMeta(r.Resource, "name", fmt.Sprintf("%s-%s-%v", str(xn), n, v))
			}
		case "setField": // set spec.<field> of one or all desired resources
			for n, r := range rsp.Desired.Resources {
				if op["name"] != nil && str(op["name"]) != n {
					continue
				}
				sp := r.Resource.Fields["spec"].GetStructValue()
				if sp == nil {
					continue
				}
				if sp.Fields == nil {
					sp.Fields = map[string]*structpb.Value{}
				}
				v, _ := structpb.NewValue(op["value"])
				sp.Fields[str(op["field"])] = v
			}
		case "ready":
			switch str(op["mode"]) {
			case "all":
				for _, r := range rsp.Desired.Resources {
					r.Ready = fnv1.Ready_READY_TRUE
				}
			case "observed":
				for n, r := range rsp.Desired.Resources {
					if _, ok := req.GetObserved().GetResources()[n]; ok {
						r.Ready = fnv1.Ready_READY_TRUE
					} else {
						r.Ready = fnv1.Ready_READY_FALSE
					}
				}
			case "field":
				v, _ := getPath(xr, str(op["items"]))
				set := map[string]bool{}
				for _, n := range strList(v) {
					set[n] = true
				}
				for n, r := range rsp.Desired.Resources {
					if set[n] {
						r.Ready = fnv1.Ready_READY_TRUE
					} else {
						r.Ready = fnv1.Ready_READY_FALSE
					}
				}
			}
		case "xrReady":
			if rsp.Desired.Composite == nil {
				rsp.Desired.Composite = &fnv1.Resource{}
			}
			switch v, _ := getPath(xr, str(op["field"])); str(v) {
			case "true":
				rsp.Desired.Composite.Ready = fnv1.Ready_READY_TRUE
			case "false":
				rsp.Desired.Composite.Ready = fnv1.Ready_READY_FALSE
			}
			if op["value"] != nil {
				if str(op["value"]) == "true" {
					rsp.Desired.Composite.Ready = fnv1.Ready_READY_TRUE
				} else if str(op["value"]) == "unspecified" {
					// a step that builds the desired XR anew: no opinion, whatever earlier steps said
					rsp.Desired.Composite.Ready = fnv1.Ready_READY_UNSPECIFIED
				} else {
					rsp.Desired.Composite.Ready = fnv1.Ready_READY_FALSE
				}
			}
		case "fatalIf":
			if v, ok := getPath(xr, str(op["field"])); ok && str(v) == str(op["equals"]) {
				rsp.Results = append(rsp.Results, &fnv1.Result{Severity: fnv1.Severity_SEVERITY_FATAL, Message: "scripted fatal at " + step})
			}
		case "result":
			sev := fnv1.Severity_SEVERITY_NORMAL
			if str(op["severity"]) == "warning" {
				sev = fnv1.Severity_SEVERITY_WARNING
			}
			r := &fnv1.Result{Severity: sev, Message: str(op["message"])}
			if rs := str(op["reason"]); rs != "" {
				r.Reason = &rs
			}
			if str(op["target"]) == "both" {
				tg := fnv1.Target_TARGET_COMPOSITE_AND_CLAIM
				r.Target = &tg
			}
			rsp.Results = append(rsp.Results, r)
		case "condition":
			st := fnv1.Status_STATUS_CONDITION_TRUE
			switch str(op["status"]) {
			case "False":
				st = fnv1.Status_STATUS_CONDITION_FALSE
			case "Unknown":
				st = fnv1.Status_STATUS_CONDITION_UNKNOWN
			}
			c := &fnv1.Condition{Type: str(op["type"]), Status: st, Reason: str(op["reason"])}
			if m := str(op["message"]); m != "" {
				c.Message = &m
			}
			if str(op["target"]) == "both" {
				tg := fnv1.Target_TARGET_COMPOSITE_AND_CLAIM
				c.Target = &tg
			}
			rsp.Conditions = append(rsp.Conditions, c)
		case "context": // append this step's marker to a trail kept in the context
			if rsp.Context == nil {
				rsp.Context = &structpb.Struct{}
			}
			if rsp.Context.Fields == nil {
				rsp.Context.Fields = map[string]*structpb.Value{}
			}
			prev := rsp.Context.Fields["trail"].GetStringValue()
			rsp.Context.Fields["trail"] = structpb.NewStringValue(prev + "/" + step)
		case "contextDrop": // returns no context at all
			rsp.Context = nil
		case "contextReset":
			rsp.Context = &structpb.Struct{Fields: map[string]*structpb.Value{"trail": structpb.NewStringValue("reset@" + step)}}
		case "status":
			if rsp.Desired.Composite == nil {
				rsp.Desired.Composite = &fnv1.Resource{}
			}
			stt := statusOf(rsp)
			var val any = op["value"]
			if f := str(op["from"]); f != "" {
				val, _ = getPath(xr, f)
			}
			if val != nil {
				v, _ := structpb.NewValue(val)
				stt.Fields[str(op["field"])] = v
			}
		case "conn": // XR connection detail: fixed value, or copied from an observed composed resource
			if f := str(op["onlyIf"]); f != "" {
				// only while the XR has this field set (the user can make the key come and go)
				if v, ok := getPath(xr, f); !ok || str(v) == "" {
					continue
				}
			}
			if rsp.Desired.Composite == nil {
				rsp.Desired.Composite = &fnv1.Resource{}
			}
			if rsp.Desired.Composite.ConnectionDetails == nil {
				rsp.Desired.Composite.ConnectionDetails = map[string][]byte{}
			}
			if from := str(op["fromResource"]); from != "" {
				if or, ok := req.GetObserved().GetResources()[from]; ok {
					if v, ok := or.GetConnectionDetails()[str(op["fromKey"])]; ok {
						rsp.Desired.Composite.ConnectionDetails[str(op["key"])] = v
					}
				}
			} else {
				rsp.Desired.Composite.ConnectionDetails[str(op["key"])] = []byte(str(op["value"]))
			}
		case "sharedName": // desired resources of different kinds are given one explicit metadata.name
			xn, _ := getPath(xr, "metadata.name")
			for _, n := range []string{"a", "g1", "strict"} { // a Thing, a Gadget, a Strict
				if r, ok := rsp.Desired.Resources[n]; ok && r.Resource != nil && len(r.Resource.GetFields()) > 0 {
					setMeta(r.Resource, "name", str(xn)+"-shared")
				}
			}
		case "copyObserved": // a desired entry built as a copy of an observed resource, annotations included
			if or, ok := req.GetObserved().GetResources()[str(op["from"])]; ok {
				m := or.GetResource().AsMap()
				md, _ := m["metadata"].(map[string]any)
				nm := map[string]any{}
				if a, ok := md["annotations"]; ok {
					nm["annotations"] = a
				}
				c := map[string]any{"apiVersion": m["apiVersion"], "kind": m["kind"], "metadata": nm, "spec": m["spec"]}
				if st, err := structpb.NewStruct(c); err == nil {
					rsp.Desired.Resources[str(op["to"])] = &fnv1.Resource{Resource: st}
				}
			}
		case "connDrop": // a later step takes a connection detail out of the desired XR again
			if rsp.Desired.Composite != nil {
				delete(rsp.Desired.Composite.ConnectionDetails, str(op["key"]))
			}
		case "require":
			requireOp(req, rsp, xr, op)
		}
	}
	return rsp
}

// requireOp implements requirement programs whose sequence depends on what the
// previous round supplied.
func requireOp(req *fnv1.RunFunctionRequest, rsp *fnv1.RunFunctionResponse, xr map[string]any, op map[string]any) {
	if rsp.Requirements == nil {
		rsp.Requirements = &fnv1.Requirements{ExtraResources: map[string]*fnv1.ResourceSelector{}}
	}
	av, kind := "things.example.org/v1", "Extra"
	byName := func(n string) *fnv1.ResourceSelector {
		return &fnv1.ResourceSelector{ApiVersion: av, Kind: kind, Match: &fnv1.ResourceSelector_MatchName{MatchName: n}}
	}
	switch str(op["mode"]) {
	case "name":
		rsp.Requirements.ExtraResources[str(op["key"])] = byName(str(op["name"]))
	case "labels":
		ls := map[string]string{}
		if m, ok := op["labels"].(map[string]any); ok {
			for k, v := range m {
				ls[k] = str(v)
			}
		}
		rsp.Requirements.ExtraResources[str(op["key"])] = &fnv1.ResourceSelector{ApiVersion: av, Kind: kind, Match: &fnv1.ResourceSelector_MatchLabels{MatchLabels: &fnv1.MatchLabels{Labels: ls}}}
	case "chain":
		// follow spec.next links starting at op.name: each round asks for the
		// start plus every link discovered so far.
		want := []string{str(op["name"])}
		seen := map[string]bool{want[0]: true}
		for i := 0; i < len(want) && i < 8; i++ {
			rs := req.GetExtraResources()["chain-"+want[i]]
			for _, it := range rs.GetItems() {
				nx, ok := getPath(it.GetResource().AsMap(), "spec.next")
				if ok && str(nx) != "" && !seen[str(nx)] {
					seen[str(nx)] = true
					want = append(want, str(nx))
				}
			}
		}
		for _, n := range want {
			rsp.Requirements.ExtraResources["chain-"+n] = byName(n)
		}
	case "pager":
		// asks for page N+1 after having been given page N: requirements differ
		// only in a label VALUE from round to round and never stabilise
		page := int64(1)
		for _, it := range req.GetExtraResources()["pg"].GetItems() {
			if p, ok := getPath(it.GetResource().AsMap(), "spec.page"); ok {
				if f, ok := p.(float64); ok {
					page = int64(f) + 1
				}
			}
		}
		rsp.Requirements.ExtraResources["pg"] = &fnv1.ResourceSelector{ApiVersion: av, Kind: kind, Match: &fnv1.ResourceSelector_MatchLabels{MatchLabels: &fnv1.MatchLabels{Labels: map[string]string{"page": fmt.Sprint(page)}}}}
	case "once":
		// needs something to get going and nothing afterwards: requirements go
		// from one entry to none between rounds
		if _, ok := req.GetExtraResources()["seed"]; !ok {
			rsp.Requirements.ExtraResources["seed"] = byName("e0")
		}
	case "narrow":
		// narrows its label selector once it has seen what the wide one matches:
		// the second round's selector is the first one plus one more label
		ls := map[string]string{"grp": "x"}
		if rs, ok := req.GetExtraResources()["nar"]; ok && len(rs.GetItems()) > 0 {
			ls["tier"] = "a"
		}
		rsp.Requirements.ExtraResources["nar"] = &fnv1.ResourceSelector{ApiVersion: av, Kind: kind, Match: &fnv1.ResourceSelector_MatchLabels{MatchLabels: &fnv1.MatchLabels{Labels: ls}}}
	case "flip":
		// never stabilises: alternates between two selectors depending on what it was given
		if _, ok := req.GetExtraResources()["flip-a"]; ok {
			rsp.Requirements.ExtraResources["flip-b"] = byName("e1")
		} else {
			rsp.Requirements.ExtraResources["flip-a"] = byName("e0")
		}
	}
	// functions typically report what they were given: record it in desired XR status
	if str(op["report"]) != "" {
		var got []string
		for k, rs := range req.GetExtraResources() {
			for _, it := range rs.GetItems() {
				n, _ := getPath(it.GetResource().AsMap(), "metadata.name")
				got = append(got, k+"="+str(n))
			}
			if len(rs.GetItems()) == 0 {
				got = append(got, k+"=<none>")
			}
		}
		sort.Strings(got)
		stt := statusOf(rsp)
		stt.Fields["extras"] = structpb.NewStringValue(strings.Join(got, ","))
	}
}

func thing(name string, xr map[string]any, op map[string]any) *structpb.Struct {
	av, kind := KindFor(name)
	spec := map[string]any{"tag": name}
	if sz, ok := getPath(xr, "spec.size"); ok {
		spec["size"] = sz
	}
	if op["needMode"] != nil {
		// the composed kind requires spec.mode; the function only sets it when
		// the XR provides it (drives "apply rejected as invalid")
		if m, ok := getPath(xr, "spec.mode"); ok {
			spec["mode"] = m
		}
		kind = "Strict"
	}
	s, _ := structpb.NewStruct(map[string]any{"apiVersion": av, "kind": kind, "spec": spec})
	return s
}

func setMeta(r *structpb.Struct, k, v string) {
	if r.Fields == nil {
		r.Fields = map[string]*structpb.Value{}
	}
	md := r.Fields["metadata"].GetStructValue()
	if md == nil {
		md = &structpb.Struct{}
		r.Fields["metadata"] = structpb.NewStructValue(md)
	}
	if md.Fields == nil {
		md.Fields = map[string]*structpb.Value{}
	}
	md.Fields[k] = structpb.NewStringValue(v)
}

func setLabel(r *structpb.Struct, k, v string) {
	if r.Fields == nil {
		r.Fields = map[string]*structpb.Value{}
	}
	md := r.Fields["metadata"].GetStructValue()
	if md == nil {
		md = &structpb.Struct{}
		r.Fields["metadata"] = structpb.NewStructValue(md)
	}
	if md.Fields == nil {
		md.Fields = map[string]*structpb.Value{}
	}
	ls := md.Fields["labels"].GetStructValue()
	if ls == nil {
		ls = &structpb.Struct{}
		md.Fields["labels"] = structpb.NewStructValue(ls)
	}
	if ls.Fields == nil {
		ls.Fields = map[string]*structpb.Value{}
	}
	ls.Fields[k] = structpb.NewStringValue(v)
}

// statusOf returns the (created if needed) status struct of the desired XR.
func statusOf(rsp *fnv1.RunFunctionResponse) *structpb.Struct {
	if rsp.Desired.Composite == nil {
		rsp.Desired.Composite = &fnv1.Resource{}
	}
	if rsp.Desired.Composite.Resource == nil {
		rsp.Desired.Composite.Resource = &structpb.Struct{}
	}
	r := rsp.Desired.Composite.Resource
	if r.Fields == nil {
		r.Fields = map[string]*structpb.Value{}
	}
	st := r.Fields["status"].GetStructValue()
	if st == nil {
		st = &structpb.Struct{}
		r.Fields["status"] = structpb.NewStructValue(st)
	}
	if st.Fields == nil {
		st.Fields = map[string]*structpb.Value{}
	}
	return st
}
