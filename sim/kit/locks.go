package kit

import (
	"fmt"

	"github.com/crossplane/crossplane/internal/simsync"

	"github.com/crossplane/crossplane/verifsim/sim"
)

// LockHook makes the overlay's simsync locks visible to the scheduler: a
// goroutine that cannot get a lock parks at a seam instead of blocking on a
// real mutex (which the bubble could not see through). Uncontended locks are
// granted without a scheduling point.
type LockHook struct {
	S     *sim.Sim
	Proc  func() *sim.Proc
	wait  map[*simsync.RWMutex]int
	names map[*simsync.RWMutex]string
}

// NewLockHook returns a hook for the locks of one process.
func NewLockHook(s *sim.Sim, proc func() *sim.Proc) *LockHook {
	return &LockHook{S: s, Proc: proc, wait: map[*simsync.RWMutex]int{}, names: map[*simsync.RWMutex]string{}}
}

// Acquire implements simsync.Hooks.
func (h *LockHook) Acquire(m *simsync.RWMutex, write bool) {
	name := h.names[m]
	if name == "" {
		name = fmt.Sprintf("mx%d", len(h.names)+1)
		h.names[m] = name
	}
	if write {
		if !m.Writer && m.Readers == 0 {
			m.Writer = true
			return
		}
		h.wait[m]++
		defer func() { h.wait[m]-- }()
		h.S.Probe("lock-contended")
		h.S.Yield(h.Proc(), "lock", "Lock "+name, nil, func() bool { return !m.Writer && m.Readers == 0 })
		m.Writer = true
		return
	}
	if !m.Writer && h.wait[m] == 0 {
		m.Readers++
		return
	}
	h.S.Probe("lock-contended")
	h.S.Yield(h.Proc(), "lock", "RLock "+name, nil, func() bool { return !m.Writer && h.wait[m] == 0 })
	m.Readers++
}

// Release implements simsync.Hooks.
func (h *LockHook) Release(*simsync.RWMutex, bool) {}

// Point implements simsync.Hooks: a scheduling point.
func (h *LockHook) Point(name string) {
	h.S.Probe("scheduling-point/" + name)
	h.S.Yield(h.Proc(), "point", name, nil, nil)
}
