package kit

import (
	"fmt"
	"os"
	"path/filepath"
	"sort"
	"sync"

	extv1 "k8s.io/apiextensions-apiserver/pkg/apis/apiextensions/v1"
	"sigs.k8s.io/yaml"

	"github.com/crossplane/crossplane/verifsim/simapi"
)

// RepoDir is the crossplane working tree the harness was built from.
func RepoDir() string {
	if d := os.Getenv("VERIF_REPO"); d != "" {
		return d
	}
	return "/repo"
}

var (
	coreOnce sync.Once
	coreCRDs []*extv1.CustomResourceDefinition
	coreKIs  []*simapi.KindInfo
	coreErr  error
)

// CoreCRDs parses /repo/cluster/crds once per process.
func CoreCRDs() ([]*extv1.CustomResourceDefinition, error) {
	coreOnce.Do(func() {
		files, err := filepath.Glob(filepath.Join(RepoDir(), "cluster", "crds", "*.yaml"))
		if err != nil || len(files) == 0 {
			coreErr = fmt.Errorf("no CRDs under %s/cluster/crds: %v", RepoDir(), err)
			return
		}
		sort.Strings(files)
		for _, f := range files {
			b, err := os.ReadFile(f)
			if err != nil {
				coreErr = err
				return
			}
			crd := &extv1.CustomResourceDefinition{}
			if err := yaml.Unmarshal(b, crd); err != nil {
				coreErr = fmt.Errorf("%s: %w", f, err)
				return
			}
			ki, err := simapi.CompileCRD(crd)
			if err != nil {
				coreErr = fmt.Errorf("%s: %w", f, err)
				return
			}
			coreCRDs = append(coreCRDs, crd)
			coreKIs = append(coreKIs, ki)
		}
	})
	return coreCRDs, coreErr
}

// ServeCore makes the store serve all core Crossplane kinds.
func ServeCore(st *simapi.Store) error {
	if _, err := CoreCRDs(); err != nil {
		return err
	}
	for _, ki := range coreKIs {
		st.Serve(ki)
	}
	return nil
}
