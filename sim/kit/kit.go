// Package kit holds helpers shared by the worlds: controllers as schedulable
// reconcile tasks, the heal phase, scheme construction, fault configuration.
package kit

import (
	"context"
	"fmt"
	"sort"
	"time"

	extv1 "k8s.io/apiextensions-apiserver/pkg/apis/apiextensions/v1"
	kruntime "k8s.io/apimachinery/pkg/runtime"
	"k8s.io/apimachinery/pkg/runtime/schema"
	"k8s.io/apimachinery/pkg/types"
	utilrand "k8s.io/apimachinery/pkg/util/rand"
	clientgoscheme "k8s.io/client-go/kubernetes/scheme"
	"sigs.k8s.io/controller-runtime/pkg/client"
	"sigs.k8s.io/controller-runtime/pkg/manager"
	"sigs.k8s.io/controller-runtime/pkg/reconcile"

	"github.com/crossplane/crossplane/apis"

	"github.com/crossplane/crossplane/verifsim/runner"
	"github.com/crossplane/crossplane/verifsim/sim"
	"github.com/crossplane/crossplane/verifsim/simapi"
)

// Scheme returns a scheme with Kubernetes, apiextensions and Crossplane types.
func Scheme() *kruntime.Scheme {
	s := kruntime.NewScheme()
	_ = clientgoscheme.AddToScheme(s)
	_ = extv1.AddToScheme(s)
	_ = apis.AddToScheme(s)
	return s
}

// Mgr is a manager.Manager that only answers what reconciler constructors ask.
type Mgr struct {
	manager.Manager
	C client.Client
	S *kruntime.Scheme
}

// GetClient returns the client.
func (m Mgr) GetClient() client.Client { return m.C }

// GetScheme returns the scheme.
func (m Mgr) GetScheme() *kruntime.Scheme { return m.S }

// GetAPIReader returns the client.
func (m Mgr) GetAPIReader() client.Reader { return m.C }

// Controller is a reconciler scheduled by the simulator.
type Controller struct {
	Name      string
	Proc      *sim.Proc
	Reconcile func(ctx context.Context, req reconcile.Request) (reconcile.Result, error)
	// Keys returns the keys that may be reconciled now (objects of the primary kind).
	Keys func() []types.NamespacedName
	// OnDone is called in the scheduler goroutine when a reconcile ends.
	OnDone func(key types.NamespacedName, t *sim.Task, res reconcile.Result, err error)
	// OnStart is called in the scheduler goroutine right before a reconcile starts.
	OnStart  func(key types.NamespacedName, t *sim.Task)
	inflight map[types.NamespacedName]*sim.Task
	Count    int
	Weight   int
	Disabled bool
}

type recResult struct {
	res reconcile.Result
	err error
}

// World bundles what most worlds need.
type World struct {
	S     *sim.Sim
	Res   *runner.Result
	Store *simapi.Store
	Ctrls []*Controller
	// ExtraState, if set, is state outside the API server (a disk) that counts
	// towards the quiescence fixpoint of Heal.
	ExtraState func() string
}

// Start launches one reconcile task.
func (w *World) Start(c *Controller, key types.NamespacedName) *sim.Task {
	if c.inflight == nil {
		c.inflight = map[types.NamespacedName]*sim.Task{}
	}
	c.Count++
	w.Res.Counters["reconcile/"+c.Name]++
	label := fmt.Sprintf("%s/%s#%d", c.Name, key.String(), c.Count)
	rr := &recResult{}
	t := w.S.Go(c.Proc, label, func(ctx context.Context) {
		rr.res, rr.err = c.Reconcile(ctx, reconcile.Request{NamespacedName: key})
	}, func(t *sim.Task) {
		delete(c.inflight, key)
		out := "killed"
		if t.Normal {
			out = fmt.Sprintf("requeue=%v err=%v", rr.res.Requeue || rr.res.RequeueAfter > 0, rr.err != nil)
		} else if t.Panic != nil {
			out = "panic"
			rr.err = fmt.Errorf("panic: %v", t.Panic)
		}
		w.S.Logf("done %s %s", t.Label, out)
		if c.OnDone != nil {
			c.OnDone(key, t, rr.res, rr.err)
		}
	})
	c.inflight[key] = t
	if c.OnStart != nil {
		c.OnStart(key, t)
	}
	return t
}

// ReconcileActions returns one environment action per (controller, key) not in flight.
func (w *World) ReconcileActions() []sim.Action {
	var out []sim.Action
	for _, c := range w.Ctrls {
		if c.Disabled || c.Proc.Dead {
			continue
		}
		wt := c.Weight
		if wt == 0 {
			wt = 10
		}
		for _, k := range c.Keys() {
			if c.inflight[k] != nil {
				continue
			}
			c, k := c, k
			out = append(out, sim.Action{Key: "reconcile " + c.Name + " " + k.String(), Weight: wt, Run: func() { w.Start(c, k) }})
		}
	}
	return out
}

// SleeperActions offers a clock advance with a high weight while some live
// task is not parked at a seam (it sleeps on a timer).
func (w *World) SleeperActions() []sim.Action {
	if w.S.LiveTasks() > len(w.S.Pending()) {
		return []sim.Action{{Key: "advance 1s (tasks sleeping)", Weight: 20, Run: func() { w.S.Advance(time.Second) }}}
	}
	return nil
}

// InFlight is the number of reconciles in flight.
func (w *World) InFlight() int {
	n := 0
	for _, c := range w.Ctrls {
		n += len(c.inflight)
	}
	return n
}

// Drain runs every live task to completion (no new environment actions).
func (w *World) Drain(maxSteps int) bool {
	for i := 0; i < maxSteps; i++ {
		w.S.Wait()
		if w.S.LiveTasks() == 0 && len(w.S.Pending()) == 0 {
			return true
		}
		if !w.S.StepOnce(nil, 1) {
			w.S.Wait()
			if w.S.LiveTasks() == 0 {
				return true
			}
			// live tasks, none parked at a seam: they sleep (a retry backoff, a
			// delayed replay); let the clock fire their timers
			w.S.Advance(time.Second)
		}
	}
	return false
}

// RunOne runs a single reconcile to completion, alone.
func (w *World) RunOne(c *Controller, key types.NamespacedName, maxSteps int) bool {
	w.Start(c, key)
	return w.Drain(maxSteps)
}

// Heal: no faults, everything restarted by the caller; reconcile every key of
// every controller round-robin until one full round changes nothing in the
// store, or the round budget is exhausted. Returns true when quiescent.
func (w *World) Heal(maxRounds int, between func()) bool {
	w.S.Phase = "heal"
	if !w.Drain(5000) {
		return false
	}
	hash := func() string {
		h := w.Store.StateHash()
		if w.ExtraState != nil {
			h += "|" + w.ExtraState()
		}
		return h
	}
	for round := 0; round < maxRounds; round++ {
		before := hash()
		for _, c := range w.Ctrls {
			if c.Disabled {
				continue
			}
			for _, k := range c.Keys() {
				if !w.RunOne(c, k, 5000) {
					return false
				}
			}
		}
		if between != nil {
			between()
		}
		if hash() == before {
			return true
		}
	}
	return false
}

// KeysOfKind returns a Keys function listing all objects of a kind.
func KeysOfKind(st *simapi.Store, gk schema.GroupKind) func() []types.NamespacedName {
	return func() []types.NamespacedName {
		var out []types.NamespacedName
		for _, k := range st.KeysOf(gk) {
			out = append(out, types.NamespacedName{Namespace: k.NS, Name: k.Name})
		}
		return out
	}
}

// DrawFaults draws the per-run fault configuration (swarm style).
func DrawFaults(s *sim.Sim, kinds []sim.Outcome) {
	t := s.Tape
	mode := t.Next(4) // 0: none, 1: single-shot, 2: low rate, 3: higher rate
	s.Cfg.Kinds = map[sim.Outcome]bool{}
	s.Cfg.SingleAt = -1
	switch mode {
	case 0:
		s.Cfg.Permille = 0
		t.Raw()
		t.Raw()
	case 1:
		s.Cfg.SingleAt = t.Next(60)
		s.Cfg.SingleKind = kinds[t.Next(len(kinds))]
		s.Cfg.Kinds[s.Cfg.SingleKind] = true
	default:
		s.Cfg.Permille = []int{0, 0, 30, 120}[mode]
		mask := t.Next(1<<len(kinds)-1) + 1
		t.Raw()
		for i, k := range kinds {
			if mask&(1<<i) != 0 {
				s.Cfg.Kinds[k] = true
			}
		}
	}
	// cache lag is drawn on its own (it is not a fault): when the property's menu
	// has stale reads, a per-run probability for lagging reads to be stale
	s.Cfg.StalePermille = 0
	for _, k := range kinds {
		if k == sim.Stale {
			s.Cfg.StalePermille = []int{0, 60, 150, 300}[(mask0(s)+mode)%4]
		}
	}
	var ks []string
	for k := range s.Cfg.Kinds {
		ks = append(ks, k.String())
	}
	sort.Strings(ks)
	s.Logf("faults mode=%d permille=%d singleAt=%d kinds=%v stale=%d", mode, s.Cfg.Permille, s.Cfg.SingleAt, ks, s.Cfg.StalePermille)
}

// mask0 draws the stale-rate index for this run.
func mask0(s *sim.Sim) int { return s.Tape.Next(4) }

// SeedNames seeds Kubernetes' name suffix generator from the tape.
func SeedNames(s *sim.Sim) {
	nameSeed = int64(s.Tape.Raw())
	utilrand.Seed(nameSeed)
}

var nameSeed int64

// RepeatNames makes the name generator start over: the names it hands out from
// now on are the ones it handed out at the beginning of the run, so generated
// names collide with names that are already taken (which the code under test
// must survive; with five random characters that never happens by chance).
func RepeatNames() { utilrand.Seed(nameSeed) }

// HookLog wires store log entries into the simulator trace.
func HookLog(s *sim.Sim, st *simapi.Store) {
	st.StepFn = func() int { return s.Step }
	st.OnLog = append(st.OnLog, func(e *simapi.LogEntry) {
		if e.Read {
			return
		}
		s.Logf("  api %s [%s]", e.Describe(), e.TaskLabel)
	})
}
