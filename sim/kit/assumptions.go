package kit

// APIAssumptions is the trusted base every check shares: the semantics the
// simulated API server implements (DESIGN.md §3).
var APIAssumptions = []string{
	"simapi is a linearizable single-copy store: optimistic concurrency on resourceVersion, byte-identical writes do not bump resourceVersion",
	"server-side apply is the real k8s.io/apimachinery managedfields implementation over schemas assembled from the served CRDs, one field manager per subresource",
	"custom resources are pruned (real structural pruning), defaulted (own structural walk) and validated (kube-openapi) from the stored CRD; CEL rules, conversion webhooks, RBAC and API priority are not modelled",
	"finalizers, deletionTimestamp, owner reference validation (one controller, non-empty uid/name/kind), foreground/background garbage collection and CRD instance cleanup follow documented Kubernetes behaviour",
	"any reconcile may start at any time (the scheduler over-approximates controller-runtime triggers; at most one reconcile per controller and key in flight)",
	"a process crash ends all its goroutines at the chosen seam call; only API-server and simulated-disk state survive",
	"Go map iteration order is a scheduler-owned seed (GOROOT overlay); select fairness and crypto/rand are not controlled",
}
