package harness

import (
	"testing"

	"github.com/crossplane/crossplane/verifsim/runner"

	_ "github.com/crossplane/crossplane/verifsim/props/c01"
	_ "github.com/crossplane/crossplane/verifsim/props/c02"
	_ "github.com/crossplane/crossplane/verifsim/props/c03"
	_ "github.com/crossplane/crossplane/verifsim/props/c04"
	_ "github.com/crossplane/crossplane/verifsim/props/c05"
	_ "github.com/crossplane/crossplane/verifsim/props/c06"
	_ "github.com/crossplane/crossplane/verifsim/props/c07"
	_ "github.com/crossplane/crossplane/verifsim/props/c08"
	_ "github.com/crossplane/crossplane/verifsim/props/c09"
	_ "github.com/crossplane/crossplane/verifsim/props/c12"
	_ "github.com/crossplane/crossplane/verifsim/props/c13"
	_ "github.com/crossplane/crossplane/verifsim/props/c14"
	_ "github.com/crossplane/crossplane/verifsim/props/c15"
	_ "github.com/crossplane/crossplane/verifsim/props/c16"
	_ "github.com/crossplane/crossplane/verifsim/props/c17"
	_ "github.com/crossplane/crossplane/verifsim/props/c19"
	_ "github.com/crossplane/crossplane/verifsim/props/c20"
)

// TestWorker is the single entry point of the harness binary; behaviour is
// selected through VERIF_* environment variables (see /verif/check).
func TestWorker(t *testing.T) { runner.Worker(t) }
