// Package simreg is the simulated OCI registry behind xpkg.Fetcher
// (DESIGN.md §1): in-memory images keyed by fully qualified reference, tags
// that can move, and a yield + fault point per call.
package simreg

import (
	"context"
	"crypto/sha256"
	"encoding/hex"
	"fmt"
	"sort"
	"strings"

	"github.com/google/go-containerregistry/pkg/name"
	ociv1 "github.com/google/go-containerregistry/pkg/v1"

	"github.com/crossplane/crossplane/verifsim/sim"
)

// HeadCall records one Head request.
type HeadCall struct {
	TaskID int
	Ref    string
	Digest string // hex, "" on error
}

// TagCall records one Tags request and its answer.
type TagCall struct {
	TaskID int
	Repo   string
	Tags   []string
}

// Registry implements xpkg.Fetcher.
type Registry struct {
	Sim    *sim.Sim
	Proc   *sim.Proc
	Faults bool
	// Tags maps "registry/repo:tag" to a digest hex.
	TagMap map[string]string
	// Images maps a digest hex to an image.
	Images map[string]ociv1.Image
	Heads  []HeadCall
	// TagLists records what each Tags call returned.
	TagLists []TagCall
	Fetches  []HeadCall
}

// New returns an empty registry.
func New(s *sim.Sim, p *sim.Proc) *Registry {
	return &Registry{Sim: s, Proc: p, Faults: true, TagMap: map[string]string{}, Images: map[string]ociv1.Image{}}
}

var regMenu = []sim.Outcome{sim.ErrBefore, sim.CrashBefore}

// DigestFor derives a deterministic digest from a label.
func DigestFor(label string) string {
	h := sha256.Sum256([]byte("image:" + label))
	return hex.EncodeToString(h[:])
}

func (r *Registry) yield(ctx context.Context, verb, ref string) (sim.Outcome, error) {
	if r.Sim == nil || sim.NoYield(ctx) {
		return sim.OK, nil
	}
	menu := regMenu
	if !r.Faults {
		menu = nil
	}
	o, _ := r.Sim.Yield(r.Proc, "reg", verb+" "+ref, menu, nil)
	if err := ctx.Err(); err != nil {
		return o, err
	}
	if o == sim.ErrBefore {
		return o, fmt.Errorf("simreg: injected registry error (%s %s)", verb, ref)
	}
	return o, nil
}

func (r *Registry) resolve(ref name.Reference) (string, bool) {
	if d, ok := ref.(name.Digest); ok {
		hexd := strings.TrimPrefix(d.DigestStr(), "sha256:")
		return hexd, true
	}
	d, ok := r.TagMap[ref.Name()]
	return d, ok
}

func taskID(ctx context.Context) int {
	if t := sim.TaskFrom(ctx); t != nil {
		return t.ID
	}
	return 0
}

// Head implements xpkg.Fetcher.
func (r *Registry) Head(ctx context.Context, ref name.Reference, _ ...string) (*ociv1.Descriptor, error) {
	if _, err := r.yield(ctx, "head", ref.Name()); err != nil {
		r.Heads = append(r.Heads, HeadCall{TaskID: taskID(ctx), Ref: ref.Name()})
		return nil, err
	}
	d, ok := r.resolve(ref)
	if !ok {
		r.Heads = append(r.Heads, HeadCall{TaskID: taskID(ctx), Ref: ref.Name()})
		return nil, fmt.Errorf("simreg: MANIFEST_UNKNOWN: %s", ref.Name())
	}
	r.Heads = append(r.Heads, HeadCall{TaskID: taskID(ctx), Ref: ref.Name(), Digest: d})
	return &ociv1.Descriptor{Digest: ociv1.Hash{Algorithm: "sha256", Hex: d}}, nil
}

// Fetch implements xpkg.Fetcher.
func (r *Registry) Fetch(ctx context.Context, ref name.Reference, _ ...string) (ociv1.Image, error) {
	if _, err := r.yield(ctx, "fetch", ref.Name()); err != nil {
		return nil, err
	}
	d, ok := r.resolve(ref)
	if !ok {
		return nil, fmt.Errorf("simreg: MANIFEST_UNKNOWN: %s", ref.Name())
	}
	img, ok := r.Images[d]
	if !ok {
		return nil, fmt.Errorf("simreg: BLOB_UNKNOWN: %s", d)
	}
	r.Fetches = append(r.Fetches, HeadCall{TaskID: taskID(ctx), Ref: ref.Name(), Digest: d})
	return img, nil
}

// Tags implements xpkg.Fetcher: the tags of the reference's repository, in the
// order the registry happens to return them (not sorted by version).
func (r *Registry) Tags(ctx context.Context, ref name.Reference, _ ...string) ([]string, error) {
	if _, err := r.yield(ctx, "tags", ref.Context().Name()); err != nil {
		return nil, err
	}
	tags := r.ListTags(ref.Context().Name())
	r.TagLists = append(r.TagLists, TagCall{TaskID: taskID(ctx), Repo: ref.Context().Name(), Tags: tags})
	return tags, nil
}

// ListTags lists the tags of a repository (lexicographic order).
func (r *Registry) ListTags(repo string) []string {
	var out []string
	for k := range r.TagMap {
		if i := strings.LastIndex(k, ":"); i > 0 && k[:i] == repo {
			out = append(out, k[i+1:])
		}
	}
	sort.Strings(out)
	return out
}
