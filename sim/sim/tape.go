// Package sim is the deterministic simulator core: the choice tape, the
// scheduler, tasks, processes, the event trace (DESIGN.md §2).
package sim

// Tape is the single source of every choice of a run (DESIGN.md §2.4). In
// search mode it is produced lazily by a PRNG seeded from the run seed and
// recorded; in replay mode it is read back, and yields 0 (the benign choice)
// once exhausted.
type Tape struct {
	Data   []uint32
	pos    int
	replay bool
	state  uint64
}

// NewTape returns a generating tape.
func NewTape(seed uint64) *Tape {
	t := &Tape{state: seed*0x9e3779b97f4a7c15 + 0x1234567}
	t.rnd()
	t.rnd()
	return t
}

// ReplayTape returns a tape that replays data.
func ReplayTape(data []uint32) *Tape {
	return &Tape{Data: append([]uint32(nil), data...), replay: true}
}

func (t *Tape) rnd() uint32 {
	// splitmix64
	t.state += 0x9e3779b97f4a7c15
	z := t.state
	z = (z ^ (z >> 30)) * 0xbf58476d1ce4e5b9
	z = (z ^ (z >> 27)) * 0x94d049bb133111eb
	z ^= z >> 31
	return uint32(z >> 16)
}

// Raw returns the next raw tape entry.
func (t *Tape) Raw() uint32 {
	if t.replay {
		if t.pos >= len(t.Data) {
			t.pos++
			return 0
		}
		v := t.Data[t.pos]
		t.pos++
		return v
	}
	v := t.rnd()
	t.Data = append(t.Data, v)
	t.pos++
	return v
}

// Next returns a value in [0,n). 0 is always the benign choice.
func (t *Tape) Next(n int) int {
	v := t.Raw()
	if n <= 1 {
		return 0
	}
	return int(v % uint32(n))
}

// Chance is true with probability num/den; a zero tape entry is always false.
func (t *Tape) Chance(num, den int) bool {
	v := t.Next(den)
	return v >= den-num
}

// Weighted picks an index with the given weights; index 0 is the benign one.
func (t *Tape) Weighted(w []int) int {
	tot := 0
	for _, x := range w {
		tot += x
	}
	if tot <= 0 {
		t.Raw()
		return 0
	}
	v := t.Next(tot)
	for i, x := range w {
		if v < x {
			return i
		}
		v -= x
	}
	return 0
}

// Pos is the number of entries consumed so far.
func (t *Tape) Pos() int { return t.pos }

// Used returns the entries consumed so far (what a replay needs).
func (t *Tape) Used() []uint32 {
	n := t.pos
	if n > len(t.Data) {
		n = len(t.Data)
	}
	return append([]uint32(nil), t.Data[:n]...)
}
