package sim

import (
	"context"
	"crypto/sha256"
	"encoding/hex"
	"fmt"
	"runtime"
	"sort"
	"strings"
	"sync"
	"sync/atomic"
	"testing/synctest"
	"time"
	_ "unsafe"
)

//go:linkname verifSetMapSeed runtime.verifSetMapSeed
func verifSetMapSeed(s uint64)

//go:linkname verifGoID runtime.verifGoID
func verifGoID() uint64

// Outcome of a seam request, decided by the scheduler from the tape.
type Outcome int

// Outcomes (DESIGN.md §2.5).
const (
	OK          Outcome = iota
	ErrBefore           // not applied, error returned
	ErrAfter            // applied, reply lost (timeout error returned)
	Conflict            // spurious 409 on a write, not applied
	CrashBefore         // process dies, not applied
	CrashAfter          // process dies after the call took effect
	Stale               // cached read served from a lagging view
	Kill                // internal: task ends now
)

var outcomeNames = []string{"ok", "err-before", "err-after", "conflict", "crash-before", "crash-after", "stale", "kill"}

func (o Outcome) String() string { return outcomeNames[o] }

// Proc is a simulated OS process: a group of tasks sharing in-memory state.
type Proc struct {
	Name string
	Dead bool
	Gen  int
}

// Task is a goroutine running real code.
type Task struct {
	ID          int
	Label       string
	Proc        *Proc
	Gen         int
	Done        bool
	Normal      bool // returned normally (not killed, not panicked)
	Panic       any
	Calls       int // seam requests issued so far
	OnDone      func(*Task)
	Data        any
	reaped      bool
	goid        uint64
	started     bool
	lastFaulted bool
	warm        bool
	// FaultSteps lists the scheduler steps at which a fault was delivered to this task.
	FaultSteps []int
}

// Request is a parked seam call.
type Request struct {
	Proc    *Proc
	Task    *Task
	Seam    string
	Key     string
	Menu    []Outcome
	Enabled func() bool
	reply   chan replyMsg
	n       int
	aux     uint32
}

type replyMsg struct {
	O   Outcome
	Aux uint32
}

// Action is an environment step offered by the world.
type Action struct {
	Key    string
	Weight int
	Run    func()
}

// FaultCfg is drawn per run.
type FaultCfg struct {
	Permille int              // probability of a fault per faultable request, chaos phase
	Kinds    map[Outcome]bool // enabled kinds
	// Single-shot mode: exactly one fault, at the SingleAt-th faultable request
	// of the chaos phase (when SingleAt >= 0).
	SingleAt   int
	SingleKind Outcome
	// StalePermille: probability that a cached read of a lagging kind is served
	// from an older position of the cache. Lag is not a fault: it is drawn
	// independently of the fault mode and does not count towards fault bursts.
	StalePermille int
}

// Violation is a property violation found during a run.
type Violation struct {
	Signature string // stable identity: invariant id + structural facts
	Detail    string
	Step      int
}

// Sim is one run.
type Sim struct {
	Tape  *Tape
	Cfg   FaultCfg
	Phase string // setup | chaos | heal | probe
	// OnlyPrefix, if set, restricts reported violations to signatures with this prefix.
	OnlyPrefix string
	// NotePrefixes: violations with these signature prefixes do not end the run
	// (they are collected in Noted and reported with the others).
	NotePrefixes []string
	Noted        []*Violation

	mu       sync.Mutex
	pending  []*Request
	byGoid   map[uint64]*Task
	tasks    []*Task
	nextTID  int
	lastTask *Task

	Step       int
	MaxSteps   int
	faultable  int
	Faults     map[string]int // fired per kind
	Probes     map[string]int
	Interleave int // steps where >1 task request was enabled

	trace     []string
	traceHash [32]byte
	hasher    interface {
		Write([]byte) (int, error)
		Sum([]byte) []byte
	}
	KeepTrace int

	Violations []*Violation
	mapSeed    uint64
	NoFaults   bool
	Trouble    string
	closed     atomic.Bool
}

// New creates a simulator for one run. Must be called inside a synctest bubble.
func New(tape *Tape) *Sim {
	s := &Sim{Tape: tape, byGoid: map[uint64]*Task{}, Faults: map[string]int{}, Probes: map[string]int{},
		hasher: sha256.New(), KeepTrace: 4000, MaxSteps: 1 << 30, Phase: "setup"}
	s.Cfg.SingleAt = -1
	s.mapSeed = uint64(tape.Raw())<<32 | 0x5bd1e995
	verifSetMapSeed(s.mapSeed)
	return s
}

// Logf appends a line to the event trace. It never draws from the tape and
// never reads a clock.
func (s *Sim) Logf(format string, a ...any) {
	line := fmt.Sprintf("%d %s: ", s.Step, s.Phase) + fmt.Sprintf(format, a...)
	s.hasher.Write([]byte(line))
	s.hasher.Write([]byte{'\n'})
	if len(s.trace) < s.KeepTrace {
		s.trace = append(s.trace, line)
	}
}

// Trace returns the retained trace lines.
func (s *Sim) Trace() []string { return s.trace }

// TraceHash returns the hash of the whole trace so far.
func (s *Sim) TraceHash() string { return hex.EncodeToString(s.hasher.Sum(nil)) }

// Violate records a violation.
func (s *Sim) Violate(sig, detail string) {
	if s.OnlyPrefix != "" && !strings.HasPrefix(sig, s.OnlyPrefix) {
		// a world borrowed by another property's check: that property's own
		// oracles stay silent here (they are judged by their own check)
		s.Probes["other-property-oracle-fired/"+strings.SplitN(sig, "/", 2)[0]]++
		return
	}
	for _, v := range append(append([]*Violation(nil), s.Violations...), s.Noted...) {
		if v.Signature == sig {
			return
		}
	}
	for _, p := range s.NotePrefixes {
		if strings.HasPrefix(sig, p) {
			// reported like any violation, but the run goes on: the rest of
			// the run keeps being judged by the other oracles
			s.Noted = append(s.Noted, &Violation{Signature: sig, Detail: detail, Step: s.Step})
			s.Logf("VIOLATION %s: %s", sig, detail)
			return
		}
	}
	s.Violations = append(s.Violations, &Violation{Signature: sig, Detail: detail, Step: s.Step})
	s.Logf("VIOLATION %s: %s", sig, detail)
}

// Probe counts a "rare condition reached" event.
func (s *Sim) Probe(name string) { s.Probes[name]++ }

// NewProc registers a process.
func (s *Sim) NewProc(name string) *Proc { return &Proc{Name: name} }

type taskKey struct{}

// TaskFrom returns the task a context belongs to.
func TaskFrom(ctx context.Context) *Task {
	t, _ := ctx.Value(taskKey{}).(*Task)
	return t
}

type noYieldKey struct{}

// WithNoYield marks a context whose seam calls are served immediately (used by
// the harness itself, e.g. to close connections at the end of a run).
func WithNoYield(ctx context.Context) context.Context {
	return context.WithValue(ctx, noYieldKey{}, true)
}

// NoYield reports whether ctx was marked by WithNoYield.
func NoYield(ctx context.Context) bool { b, _ := ctx.Value(noYieldKey{}).(bool); return b }

// Go starts a task running fn.
func (s *Sim) Go(p *Proc, label string, fn func(ctx context.Context), onDone func(*Task)) *Task {
	s.mu.Lock()
	s.nextTID++
	t := &Task{ID: s.nextTID, Label: label, Proc: p, Gen: p.Gen, OnDone: onDone}
	s.tasks = append(s.tasks, t)
	s.mu.Unlock()
	ctx := context.WithValue(context.Background(), taskKey{}, t)
	go func() {
		id := verifGoID()
		s.mu.Lock()
		t.goid = id
		s.byGoid[id] = t
		s.mu.Unlock()
		defer func() {
			if r := recover(); r != nil {
				buf := make([]byte, 4096)
				buf = buf[:runtime.Stack(buf, false)]
				t.Panic = fmt.Sprintf("%v\n%s", r, buf)
			}
			s.mu.Lock()
			t.Done = true
			delete(s.byGoid, id)
			s.mu.Unlock()
		}()
		fn(ctx)
		t.Normal = true
	}()
	return t
}

func (s *Sim) curTask(p *Proc) *Task {
	id := verifGoID()
	s.mu.Lock()
	defer s.mu.Unlock()
	if t, ok := s.byGoid[id]; ok {
		return t
	}
	// A goroutine spawned by code under test: an anonymous task of the process.
	t := &Task{ID: -1, Label: "anon", Proc: p, Gen: p.Gen}
	s.byGoid[id] = t
	t.goid = id
	return t
}

// Hot marks the task of ctx as having just met something unusual (a cache that
// misses an existing object): like after a fault, its next request is more
// likely to be faulted, so that recovery paths needing two anomalies in a row
// are reached.
func (s *Sim) Hot(ctx context.Context) {
	if t := TaskFrom(ctx); t != nil {
		t.lastFaulted = true
	}
}

// Warm marks the task of ctx as having just committed something after which
// code typically looks again (a delete): its next request is somewhat more
// likely to be faulted than the run's rate says, so that "act, then re-read"
// sequences meet a failing re-read often enough.
func (s *Sim) Warm(ctx context.Context) {
	if t := TaskFrom(ctx); t != nil {
		t.warm = true
	}
}

// CurrentTaskID returns the ID of the task the calling goroutine runs as (0: none).
func (s *Sim) CurrentTaskID() int {
	id := verifGoID()
	s.mu.Lock()
	defer s.mu.Unlock()
	if t, ok := s.byGoid[id]; ok {
		return t.ID
	}
	return 0
}

// Exit ends the calling goroutine (used by seams after a crash-after effect).
func (s *Sim) Exit() { runtime.Goexit() }

// Yield parks the calling goroutine at a seam until the scheduler replies.
func (s *Sim) Yield(p *Proc, seam, key string, menu []Outcome, enabled func() bool) (Outcome, uint32) {
	if s.closed.Load() {
		// the run is over: goroutines that wake up late (a timer, a backoff
		// sleep) end at their next seam call
		runtime.Goexit()
	}
	t := s.curTask(p)
	if p != nil && (p.Dead || t.Gen != p.Gen) {
		runtime.Goexit()
	}
	r := &Request{Proc: p, Task: t, Seam: seam, Key: key, Menu: menu, Enabled: enabled, reply: make(chan replyMsg)}
	s.mu.Lock()
	t.Calls++
	r.n = t.Calls
	s.pending = append(s.pending, r)
	s.mu.Unlock()
	m := <-r.reply
	if m.O == Kill {
		runtime.Goexit()
	}
	return m.O, m.Aux
}

// Wait blocks until every other goroutine of the bubble is parked or done, then
// reaps finished tasks (in canonical order) in the scheduler goroutine.
func (s *Sim) Wait() {
	for {
		synctest.Wait()
		s.mu.Lock()
		var done []*Task
		for _, t := range s.tasks {
			if t.Done && !t.reaped {
				t.reaped = true
				done = append(done, t)
			}
		}
		if len(done) > 0 {
			live := s.tasks[:0]
			for _, t := range s.tasks {
				if !t.reaped {
					live = append(live, t)
				}
			}
			s.tasks = live
		}
		s.mu.Unlock()
		if len(done) == 0 {
			return
		}
		sort.SliceStable(done, func(i, j int) bool { return done[i].Label < done[j].Label })
		for _, t := range done {
			if t.Panic != nil {
				s.Probe("task-panic")
				s.Logf("task %s panicked: %s", t.Label, firstLine(fmt.Sprint(t.Panic)))
				if harnessPanic(fmt.Sprint(t.Panic)) && s.Trouble == "" {
					s.Trouble = "panic in harness code: " + fmt.Sprint(t.Panic)
				}
			}
			if t.OnDone != nil {
				t.OnDone(t)
			}
		}
	}
}

// harnessPanic reports whether the innermost non-runtime frame of a panic
// stack is harness code (a bug in the machinery, not in the code under test).
func harnessPanic(stack string) bool {
	for _, l := range strings.Split(stack, "\n") {
		l = strings.TrimSpace(l)
		if !strings.HasPrefix(l, "/") {
			continue
		}
		if strings.Contains(l, "/src/runtime/") || strings.Contains(l, "sim/sim/sim.go") {
			continue
		}
		return strings.HasPrefix(l, "/verif/") || strings.Contains(l, "/verifsim/")
	}
	return false
}

func firstLine(s string) string {
	if i := strings.IndexByte(s, '\n'); i >= 0 {
		return s[:i]
	}
	return s
}

// Pending returns the parked requests in canonical order.
func (s *Sim) Pending() []*Request {
	s.mu.Lock()
	defer s.mu.Unlock()
	rs := append([]*Request(nil), s.pending...)
	sort.SliceStable(rs, func(i, j int) bool { return reqKey(rs[i]) < reqKey(rs[j]) })
	return rs
}

func reqKey(r *Request) string {
	pn := ""
	if r.Proc != nil {
		pn = r.Proc.Name
	}
	return pn + "|" + r.Task.Label + "|" + r.Seam + "|" + r.Key + "|" + fmt.Sprint(r.n)
}

func (s *Sim) remove(r *Request) {
	s.mu.Lock()
	for i, x := range s.pending {
		if x == r {
			s.pending = append(s.pending[:i], s.pending[i+1:]...)
			break
		}
	}
	s.mu.Unlock()
}

// LiveTasks is the number of tasks not yet finished.
func (s *Sim) LiveTasks() int {
	s.mu.Lock()
	defer s.mu.Unlock()
	n := 0
	for _, t := range s.tasks {
		if !t.Done {
			n++
		}
	}
	return n
}

// StepOnce performs one scheduler step: quiesce, pick one enabled request or
// environment action from the tape, apply it. It returns false when nothing
// is enabled.
func (s *Sim) StepOnce(env []Action, taskWeight int) bool {
	s.Wait()
	s.Step++
	ms := s.Tape.Raw()
	verifSetMapSeed(s.mapSeed ^ uint64(ms)*0x9e3779b97f4a7c15)
	reqs := s.Pending()
	var en []*Request
	for _, r := range reqs {
		if r.Enabled == nil || r.Enabled() {
			en = append(en, r)
		}
	}
	// benign choice first: the task that ran last.
	if s.lastTask != nil {
		for i, r := range en {
			if r.Task == s.lastTask {
				en[0], en[i] = en[i], en[0]
				break
			}
		}
	}
	if len(en) > 1 {
		s.Interleave++
	}
	w := make([]int, 0, len(en)+len(env))
	for range en {
		w = append(w, taskWeight)
	}
	for _, a := range env {
		w = append(w, a.Weight)
	}
	if len(w) == 0 {
		s.Tape.Raw()
		s.Tape.Raw()
		s.Tape.Raw()
		return false
	}
	c := s.Tape.Weighted(w)
	if w[c] == 0 { // all-zero weights
		c = 0
	}
	if c < len(en) {
		r := en[c]
		s.lastTask = r.Task
		o := s.decide(r)
		s.Logf("%s %s %s#%d %s -> %s", procName(r.Proc), r.Task.Label, r.Seam, r.n, r.Key, o)
		s.reply(r, o)
	} else {
		s.Tape.Raw()
		s.Tape.Raw()
		a := env[c-len(en)]
		s.Logf("env %s", a.Key)
		a.Run()
	}
	// quiesce before returning so that the caller's invariants (and the next
	// phase) never race with the task that was just released.
	s.Wait()
	return true
}

func procName(p *Proc) string {
	if p == nil {
		return "-"
	}
	return p.Name
}

func (s *Sim) decide(r *Request) Outcome {
	a := s.Tape.Next(1000)
	b := int(s.Tape.Raw() >> 1)
	r.aux = uint32(b)
	if len(r.Menu) == 0 || s.NoFaults || s.Phase != "chaos" {
		return OK
	}
	var menu []Outcome
	for _, o := range r.Menu {
		if s.Cfg.Kinds == nil || s.Cfg.Kinds[o] {
			menu = append(menu, o)
		}
	}
	idx := s.faultable
	s.faultable++
	staleOK := false
	for _, o := range r.Menu {
		staleOK = staleOK || o == Stale
	}
	if staleOK && s.Cfg.StalePermille > 0 && (b>>10)%1000 < s.Cfg.StalePermille {
		s.Faults[Stale.String()]++
		return Stale
	}
	if s.Cfg.SingleAt >= 0 {
		if idx == s.Cfg.SingleAt {
			for _, o := range r.Menu {
				if o == s.Cfg.SingleKind {
					s.Faults[o.String()]++
					r.Task.FaultSteps = append(r.Task.FaultSteps, s.Step)
					return o
				}
			}
		}
		return OK
	}
	// correlated faults: right after a fault the same task's next request is
	// much more likely to be faulted too (faults cluster in real outages, and
	// the interesting recovery paths need two in a row).
	burst := r.Task.lastFaulted && s.Cfg.Permille > 0 && a%2 == 1
	if r.Task.warm && s.Cfg.Permille > 0 && a%8 == 3 {
		burst = true
		s.Probes["fault-right-after-a-delete"]++
	}
	r.Task.lastFaulted, r.Task.warm = false, false
	if len(menu) == 0 || (a < 1000-s.Cfg.Permille && !burst) {
		return OK
	}
	o := menu[b%len(menu)]
	s.Faults[o.String()]++
	r.Task.lastFaulted = true
	r.Task.FaultSteps = append(r.Task.FaultSteps, s.Step)
	if burst {
		s.Probes["burst-fault"]++
	}
	return o
}

func (s *Sim) reply(r *Request, o Outcome) {
	s.remove(r)
	if o == CrashBefore || o == CrashAfter {
		s.Crash(r.Proc, r)
		if o == CrashBefore {
			o = Kill
		}
	}
	r.reply <- replyMsg{o, r.aux}
}

// Crash kills every task of p (except that `keep`'s request is left for the
// caller to answer).
func (s *Sim) Crash(p *Proc, keep *Request) {
	p.Dead = true
	s.Logf("crash %s", p.Name)
	for _, r := range s.Pending() {
		if r.Proc == p && r != keep {
			s.remove(r)
			r.reply <- replyMsg{O: Kill}
		}
	}
}

// Restart makes p alive again with a new generation; old goroutines that wake
// up later exit at their next seam call.
func (s *Sim) Restart(p *Proc) {
	p.Dead = false
	p.Gen++
	s.Logf("restart %s gen=%d", p.Name, p.Gen)
}

// Advance moves the fake clock forward, firing timers.
func (s *Sim) Advance(d time.Duration) {
	time.Sleep(d)
}

// Shutdown kills every task so the bubble can end.
func (s *Sim) Shutdown(procs ...*Proc) {
	defer s.closed.Store(true)
	idle := 0
	for i := 0; i < 1000 && idle < 6; i++ {
		s.Wait()
		for _, p := range procs {
			p.Dead = true
		}
		ps := s.Pending()
		for _, r := range ps {
			s.remove(r)
			r.reply <- replyMsg{O: Kill}
		}
		if len(ps) > 0 {
			idle = 0
			continue
		}
		// Nothing is parked at a seam, but goroutines may still sleep (a backoff,
		// a delayed replay): the fake clock stops when the bubble's main
		// goroutine exits, so fire their timers now; they end at their next seam
		// call because their process is dead.
		idle++
		time.Sleep(time.Hour)
	}
}

// SetMapSeed lets a world force a map seed (used between probe reconciles).
func (s *Sim) SetMapSeed(x uint64) { verifSetMapSeed(s.mapSeed ^ x*0x9e3779b97f4a7c15) }
