package xrworld

import (
	"context"
	"fmt"

	"k8s.io/apimachinery/pkg/apis/meta/v1/unstructured"
	"k8s.io/apimachinery/pkg/types"

	"github.com/crossplane/crossplane/verifsim/sim"
)

// ClaimSpec is the user-owned part of a claim.
type ClaimSpec struct {
	XRSpec
	NS           string
	DeletePolicy string // "" | Background | Foreground
	UpdatePolicy string // "" | Automatic | Manual
	Labels       map[string]string
	Annotations  map[string]string
	Exists       bool
	Created      int
}

// Object renders the claim.
func (c *ClaimSpec) Object() *unstructured.Unstructured {
	u := &unstructured.Unstructured{Object: map[string]any{"apiVersion": "example.org/v1", "kind": ClaimGVK.Kind,
		"metadata": map[string]any{"name": c.Name, "namespace": c.NS}}}
	c.ApplyTo(u)
	_ = unstructured.SetNestedField(u.Object, "comp", "spec", "compositionRef", "name")
	return u
}

// ApplyTo writes the user-owned fields into u.
func (c *ClaimSpec) ApplyTo(u *unstructured.Unstructured) {
	wc := c.XRSpec.WriteConn
	c.XRSpec.WriteConn = false
	c.XRSpec.ApplyTo(u)
	c.XRSpec.WriteConn = wc
	if wc {
		_ = unstructured.SetNestedField(u.Object, c.Name+"-conn", "spec", "writeConnectionSecretToRef", "name")
	}
	if c.DeletePolicy != "" {
		_ = unstructured.SetNestedField(u.Object, c.DeletePolicy, "spec", "compositeDeletePolicy")
	}
	if c.UpdatePolicy != "" {
		_ = unstructured.SetNestedField(u.Object, c.UpdatePolicy, "spec", "compositionUpdatePolicy")
	}
	if len(c.Labels) > 0 {
		u.SetLabels(c.Labels)
	}
	if len(c.Annotations) > 0 {
		u.SetAnnotations(c.Annotations)
	}
}

// DrawClaims draws 1..max claims.
func DrawClaims(t *sim.Tape, wl *Workload, p DrawParams, max int) []*ClaimSpec {
	n := 1 + t.Next(max)
	var out []*ClaimSpec
	for i := 0; i < n; i++ {
		c := &ClaimSpec{NS: "default"}
		c.Name = fmt.Sprintf("c%d", i)
		c.Items = subset(t, wl.Pool, false)
		c.Size = int64(1 + t.Next(3))
		c.DeletePolicy = []string{"", "Background", "Foreground"}[t.Next(3)]
		if p.Conn {
			c.WriteConn = t.Next(3) > 0
		}
		out = append(out, c)
	}
	return out
}

// CreateClaim creates the claim object.
func (w *W) CreateClaim(c *ClaimSpec) {
	if err := w.Direct.Create(context.Background(), c.Object()); err == nil {
		c.Exists = true
		c.Created++
	}
}

// DeleteClaim requests deletion of the claim.
func (w *W) DeleteClaim(c *ClaimSpec) {
	u := &unstructured.Unstructured{}
	u.SetGroupVersionKind(ClaimGVK)
	u.SetName(c.Name)
	u.SetNamespace(c.NS)
	_ = w.Direct.Delete(context.Background(), u)
}

// ClaimObj returns the stored claim.
func (w *W) ClaimObj(c *ClaimSpec) *unstructured.Unstructured {
	u := &unstructured.Unstructured{}
	u.SetGroupVersionKind(ClaimGVK)
	if err := w.Direct.Get(context.Background(), types.NamespacedName{Namespace: c.NS, Name: c.Name}, u); err != nil {
		return nil
	}
	return u
}

// EditClaim applies a user edit to the claim's spec.
func (w *W) EditClaim(wl *Workload, c *ClaimSpec, p DrawParams, t *sim.Tape) {
	switch t.Next(3) {
	case 0:
		c.Items = subset(t, wl.Pool, false)
	case 1:
		c.Size = int64(1 + t.Next(3))
	case 2:
		c.Drop = subset(t, wl.Pool, true)
	}
	u := w.ClaimObj(c)
	if u == nil || u.GetDeletionTimestamp() != nil {
		return
	}
	c.ApplyTo(u)
	_ = w.Direct.Update(context.Background(), u)
}
