package xrworld

import (
	"context"
	"encoding/json"
	"fmt"
	"sort"
	"strings"

	metav1 "k8s.io/apimachinery/pkg/apis/meta/v1"
	"k8s.io/apimachinery/pkg/apis/meta/v1/unstructured"
	kruntime "k8s.io/apimachinery/pkg/runtime"
	"k8s.io/apimachinery/pkg/types"
	"k8s.io/utils/ptr"

	xpv1 "github.com/crossplane/crossplane-runtime/apis/common/v1"

	v1 "github.com/crossplane/crossplane/apis/apiextensions/v1"

	"github.com/crossplane/crossplane/verifsim/sim"
	"github.com/crossplane/crossplane/verifsim/simfn"
)

// Step is one pipeline step with its scripted program.
type Step struct {
	Name  string
	Fn    string
	Ops   []simfn.Op
	Creds []string // names of Secrets (crossplane-system) passed as credentials
}

// Tmpl is a named P&T template.
type Tmpl struct {
	Name         string
	Kind         string // Thing | Gadget | Strict
	RequireMode  bool   // required FromCompositeFieldPath patch spec.mode -> spec.mode
	OptionalMode bool   // optional FromCompositeFieldPath patch spec.mode -> spec.mode
	Readiness    string // "none" | "phase" | "default"
	Enabled      bool
	// connection details the template extracts for the XR (DrawParams.PTConn)
	ConnValue     string // FromValue: key "user" (two templates may both set it: the later one wins)
	ConnSecretKey string // FromConnectionSecretKey "password": "named" (key "pass") | "unnamed" (key "password") | ""
	ConnField     string // FromFieldPath: key "extra" from this path of the composed resource ("" = none)
	ConnSecret    bool   // the composed resource asks for a connection secret of its own
}

// XRSpec is the user-owned part of an XR.
type XRSpec struct {
	Name       string
	Items      []string
	Drop       []string
	ReadyNames []string
	Size       int64
	Mode       string
	FatalStep  string
	XRReady    string
	WriteConn  bool
}

// Workload is what a run composes.
type Workload struct {
	Pipeline  bool
	Steps     []Step
	Templates []Tmpl
	XRs       []*XRSpec
	Pool      []string
	Fns       []string
	FixedOn   bool // pipeline variant toggle (composition edits)
	Anonymous bool // P&T templates carry no names (until the composition is migrated to named templates)
	ConnNS    bool // composition sets writeConnectionSecretsToNamespace
}

// DrawParams tunes workload generation per property.
type DrawParams struct {
	ForcePipeline  bool
	ForceResources bool
	Fatal          bool // include fatalIf ops + XR edits that trigger them
	Readiness      bool // vary readiness programs
	Conditions     bool // functions emit conditions incl. forged system types
	Strict         bool // include resources whose kind rejects applies without spec.mode
	Requirements   bool
	Conn           bool
	// PTConn: with Conn, some workloads are P&T compositions whose templates
	// extract connection details (fixed values, keys of the composed resource's
	// own connection secret, field paths incl. missing ones).
	PTConn bool
	MaxXR  int
	// Anonymous: now and then P&T compositions start with anonymous templates
	// and are migrated to named ones later.
	Anonymous bool
	// NameGames: now and then the first step gives resources of different kinds
	// one explicit name, or builds an entry as a copy of an observed resource.
	NameGames bool
	// RepeatedResults: now and then a step warns with the very text the next
	// step's fatal result will carry (a later step escalating an earlier warning).
	RepeatedResults bool
	// RequireOnce: requirement programs include one that asks for a resource
	// until it is given it and for nothing afterwards (never stabilises).
	RequireOnce bool
	// Contract: workloads for the function-contract check (C04): up to four
	// steps, context rewrites, credentials, more requirement programs.
	Contract bool
}

var pool = []string{"a", "b", "c", "g1"}

func subset(t *sim.Tape, from []string, allowEmpty bool) []string {
	var out []string
	for _, x := range from {
		if t.Next(2) == 1 {
			out = append(out, x)
		}
	}
	if len(out) == 0 && !allowEmpty {
		out = []string{from[0]}
	}
	return out
}

// Draw draws a workload from the tape.
func Draw(t *sim.Tape, p DrawParams) *Workload {
	w := &Workload{Pool: pool, Fns: []string{"fn-a", "fn-b"}}
	w.Pipeline = t.Next(10) < 7
	if p.ForcePipeline {
		w.Pipeline = true
	}
	if p.ForceResources {
		w.Pipeline = false
	}
	if p.PTConn {
		w.Pipeline = t.Next(5) < 3
	}
	nSteps := 1 + t.Next(3)
	if p.Contract {
		nSteps = 1 + t.Next(4)
	}
	for i := 0; i < nSteps; i++ {
		st := Step{Name: fmt.Sprintf("s%d", i), Fn: w.Fns[t.Next(2)]}
		if i == 0 {
			st.Ops = append(st.Ops, simfn.Op{"op": "emit", "items": "spec.items"})
			if p.Strict && t.Next(3) == 0 {
				st.Ops = append(st.Ops, simfn.Op{"op": "emitFixed", "name": "strict", "needMode": true})
			}
		} else {
			switch t.Next(5) {
			case 0:
				st.Ops = append(st.Ops, simfn.Op{"op": "label", "key": "stage", "value": st.Name})
			case 1:
				st.Ops = append(st.Ops, simfn.Op{"op": "drop", "items": "spec.drop"})
			case 2:
				st.Ops = append(st.Ops, simfn.Op{"op": "emitFixed", "name": "late"})
			case 3:
				st.Ops = append(st.Ops, simfn.Op{"op": "setField", "field": "extra", "value": st.Name})
			case 4:
				st.Ops = append(st.Ops, simfn.Op{"op": "nameFrom", "field": "spec.size"})
			}
		}
		if p.Readiness && i < nSteps-1 && t.Next(4) == 0 {
			// an earlier step marks the XR ready (later steps may or may not keep that)
			st.Ops = append(st.Ops, simfn.Op{"op": "xrReady", "field": "spec.noSuchField", "value": "true"})
		}
		if p.Fatal && p.RepeatedResults && t.Next(3) == 0 {
			st.Ops = append(st.Ops, simfn.Op{"op": "result", "severity": "warning", "message": fmt.Sprintf("scripted fatal at s%d", i+t.Next(2))})
		}
		if p.NameGames && i == 0 {
			switch t.Next(6) {
			case 0:
				st.Ops = append(st.Ops, simfn.Op{"op": "sharedName"})
			case 1:
				st.Ops = append(st.Ops, simfn.Op{"op": "copyObserved", "from": "a", "to": "replica"})
			}
		}
		if p.Fatal {
			st.Ops = append(st.Ops, simfn.Op{"op": "fatalIf", "field": "spec.fatalStep", "equals": st.Name})
		}
		st.Ops = append(st.Ops, simfn.Op{"op": "context"})
		if i == nSteps-1 {
			mode := "all"
			if p.Readiness {
				mode = []string{"all", "observed", "field", "none"}[t.Next(4)]
			}
			st.Ops = append(st.Ops, simfn.Op{"op": "ready", "mode": mode, "items": "spec.readyNames"})
			st.Ops = append(st.Ops, simfn.Op{"op": "xrReady", "field": "spec.xrReady"})
			if p.Readiness && nSteps > 1 && t.Next(4) == 0 {
				// the last step has no opinion of its own and does not pass on what earlier steps said
				st.Ops = append(st.Ops, simfn.Op{"op": "xrReady", "field": "spec.noSuchField", "value": "unspecified"})
			}
			st.Ops = append(st.Ops, simfn.Op{"op": "status", "field": "seen", "from": "spec.size"})
		}
		if p.Conditions && t.Next(2) == 0 {
			typ := []string{"Ready", "Synced", "Healthy", "Custom" + st.Name}[t.Next(4)]
			st.Ops = append(st.Ops, simfn.Op{"op": "condition", "type": typ, "status": []string{"True", "False"}[t.Next(2)], "reason": "ForgedByFunction", "message": "forged-marker", "target": []string{"", "both"}[t.Next(2)]})
			st.Ops = append(st.Ops, simfn.Op{"op": "result", "severity": []string{"normal", "warning"}[t.Next(2)], "message": "result-from-" + st.Name})
		}
		if p.Requirements && i > 0 && t.Next(6) == 0 {
			// a later step that replaces an entry by a body-less one
			// (for the resources the XR lists in spec.drop: the user can turn it on and off)
			st.Ops = append(st.Ops, simfn.Op{"op": "blank", "items": "spec.drop"})
		}
		if p.Requirements && t.Next(2) == 0 {
			switch t.Next(5) {
			case 4:
				st.Ops = append(st.Ops, simfn.Op{"op": "require", "mode": "pager"})
			case 0:
				st.Ops = append(st.Ops, simfn.Op{"op": "require", "mode": "name", "key": "one", "name": "e0", "report": "y"})
			case 1:
				st.Ops = append(st.Ops, simfn.Op{"op": "require", "mode": "labels", "key": "lab", "labels": map[string]any{"grp": "x"}, "report": "y"})
			case 2:
				st.Ops = append(st.Ops, simfn.Op{"op": "require", "mode": "chain", "name": "e0", "report": "y"})
			case 3:
				st.Ops = append(st.Ops, simfn.Op{"op": "require", "mode": "flip"})
			}
		}
		if p.RequireOnce && t.Next(6) == 0 {
			st.Ops = append(st.Ops, simfn.Op{"op": "require", "mode": "once"})
		}
		if p.Contract {
			switch t.Next(8) {
			case 0, 1:
				st.Ops = append(st.Ops, simfn.Op{"op": "contextReset"})
			case 2:
				st.Ops = append(st.Ops, simfn.Op{"op": "contextDrop"})
			}
			switch t.Next(8) {
			case 0, 1:
				st.Ops = append(st.Ops, simfn.Op{"op": "require", "mode": "narrow", "report": "y"})
			case 2:
				st.Ops = append(st.Ops, simfn.Op{"op": "require", "mode": "once", "report": "y"})
			}
			// (a secret of the same name exists in two namespaces with different data)
			for _, sn := range []string{"crossplane-system/creds-a", "crossplane-system/creds-b", "team-b/creds-a"} {
				if t.Next(3) == 0 {
					st.Creds = append(st.Creds, sn)
				}
			}
			if t.Next(3) == 0 {
				st.Ops = append(st.Ops, simfn.Op{"op": "result", "severity": []string{"normal", "warning"}[t.Next(2)], "message": "note-from-" + st.Name})
			}
		}
		if p.Conn && t.Next(3) == 0 {
			// a key that is only published while the XR has spec.mode set
			st.Ops = append(st.Ops, simfn.Op{"op": "conn", "key": "user", "value": "m-" + st.Name, "onlyIf": "spec.mode"})
		}
		if p.Conn && t.Next(2) == 0 {
			st.Ops = append(st.Ops, simfn.Op{"op": "conn", "key": []string{"user", "pass", "extra"}[t.Next(3)], "value": "v-" + st.Name})
		}
		if p.PTConn && i > 0 && t.Next(3) == 0 {
			// a later step redacts a key an earlier step may have set
			st.Ops = append(st.Ops, simfn.Op{"op": "connDrop", "key": []string{"user", "pass", "extra"}[t.Next(3)]})
		}
		w.Steps = append(w.Steps, st)
	}
	kinds := []string{"Thing", "Gadget"}
	for i, n := range []string{"a", "b", "g1"} {
		tm := Tmpl{Name: n, Kind: kinds[t.Next(2)], Enabled: i == 0 || t.Next(3) > 0}
		if n == "g1" {
			tm.Kind = "Gadget"
		} else {
			tm.Kind = "Thing"
		}
		if p.Strict && t.Next(3) == 0 {
			tm.RequireMode = true
		}
		tm.Readiness = "none"
		if p.Readiness {
			tm.Readiness = []string{"none", "phase", "default", "cond+phase", "phase+cond"}[t.Next(5)]
		}
		if p.PTConn && !w.Pipeline {
			if t.Next(2) == 0 {
				tm.ConnValue = "tv-" + n
			}
			tm.ConnSecretKey = []string{"", "named", "named", "unnamed"}[t.Next(4)]
			tm.ConnSecret = tm.ConnSecretKey != "" || t.Next(3) == 0
			tm.ConnField = []string{"", "spec.tag", "status.phase", "spec.nothing.here"}[t.Next(4)]
		}
		w.Templates = append(w.Templates, tm)
	}
	if p.Strict {
		// a template of the kind that rejects objects without spec.mode, fed by an
		// optional patch: when the XR has no spec.mode the object renders fine and
		// the API server rejects it as invalid
		w.Templates = append(w.Templates, Tmpl{Name: "s1", Kind: "Strict", OptionalMode: true, Readiness: "none", Enabled: t.Next(2) == 0})
	}
	if p.Anonymous && !w.Pipeline && t.Next(3) == 0 {
		w.Anonymous = true
		for i := range w.Templates {
			w.Templates[i].Enabled = true
		}
	}
	if p.Conn {
		w.ConnNS = t.Next(4) > 0
	}
	max := p.MaxXR
	if max == 0 {
		max = 2
	}
	nXR := 1 + t.Next(max)
	for i := 0; i < nXR; i++ {
		x := &XRSpec{Name: fmt.Sprintf("x%d", i), Items: subset(t, pool, false), Size: int64(1 + t.Next(3))}
		if p.Readiness {
			x.ReadyNames = subset(t, pool, true)
			x.XRReady = []string{"", "", "true", "false"}[t.Next(4)]
		}
		if p.Strict && t.Next(2) == 0 {
			x.Mode = "fast"
		}
		if p.Conn {
			x.WriteConn = t.Next(3) > 0
		}
		w.XRs = append(w.XRs, x)
	}
	return w
}

// Composition renders the workload's Composition.
func (wl *Workload) Composition() *v1.Composition {
	c := &v1.Composition{ObjectMeta: metav1.ObjectMeta{Name: "comp"}}
	c.Spec.CompositeTypeRef = v1.TypeReference{APIVersion: "example.org/v1", Kind: "XThing"}
	if wl.ConnNS {
		c.Spec.WriteConnectionSecretsToNamespace = ptr.To("crossplane-system")
	}
	if wl.Pipeline {
		m := v1.CompositionModePipeline
		c.Spec.Mode = &m
		for _, st := range wl.Steps {
			ops := append([]simfn.Op(nil), st.Ops...)
			if wl.FixedOn && st.Name == "s0" {
				ops = append(ops, simfn.Op{"op": "emitFixed", "name": "fixed"})
			}
			in := map[string]any{"apiVersion": "sim.fn/v1", "kind": "Program", "step": st.Name, "ops": ops}
			b, _ := json.Marshal(in)
			ps := v1.PipelineStep{Step: st.Name, FunctionRef: v1.FunctionReference{Name: st.Fn}, Input: &kruntime.RawExtension{Raw: b}}
			for _, sn := range st.Creds {
				ns, n := "crossplane-system", sn
				if i := strings.Index(sn, "/"); i >= 0 {
					ns, n = sn[:i], sn[i+1:]
				}
				ps.Credentials = append(ps.Credentials, v1.FunctionCredentials{Name: strings.ReplaceAll(sn, "/", "."), Source: v1.FunctionCredentialsSourceSecret,
					SecretRef: &xpv1.SecretReference{Namespace: ns, Name: n}})
			}
			c.Spec.Pipeline = append(c.Spec.Pipeline, ps)
		}
		return c
	}
	m := v1.CompositionModeResources
	c.Spec.Mode = &m
	for _, tm := range wl.Templates {
		if !tm.Enabled {
			continue
		}
		base := map[string]any{"apiVersion": "things.example.org/v1", "kind": tm.Kind, "spec": map[string]any{"tag": tm.Name}}
		if tm.ConnSecret {
			base["spec"].(map[string]any)["writeConnectionSecretToRef"] = map[string]any{"namespace": "crossplane-system"}
		}
		b, _ := json.Marshal(base)
		ct := v1.ComposedTemplate{Name: ptr.To(tm.Name), Base: kruntime.RawExtension{Raw: b}}
		if wl.Anonymous {
			ct.Name = nil
		}
		ct.Patches = append(ct.Patches, v1.Patch{Type: v1.PatchTypeFromCompositeFieldPath, FromFieldPath: ptr.To("spec.size"), ToFieldPath: ptr.To("spec.size")})
		if tm.RequireMode {
			req := v1.FromFieldPathPolicyRequired
			ct.Patches = append(ct.Patches, v1.Patch{Type: v1.PatchTypeFromCompositeFieldPath, FromFieldPath: ptr.To("spec.mode"), ToFieldPath: ptr.To("spec.mode"), Policy: &v1.PatchPolicy{FromFieldPath: &req}})
		}
		if tm.OptionalMode {
			ct.Patches = append(ct.Patches, v1.Patch{Type: v1.PatchTypeFromCompositeFieldPath, FromFieldPath: ptr.To("spec.mode"), ToFieldPath: ptr.To("spec.mode")})
		}
		if tm.ConnSecret {
			// the composed resource publishes a connection secret of its own, named after the XR and the template
			ct.Patches = append(ct.Patches, v1.Patch{Type: v1.PatchTypeFromCompositeFieldPath, FromFieldPath: ptr.To("metadata.name"), ToFieldPath: ptr.To("spec.writeConnectionSecretToRef.name"),
				Transforms: []v1.Transform{{Type: v1.TransformTypeString, String: &v1.StringTransform{Type: v1.StringTransformTypeFormat, Format: ptr.To("%s-" + tm.Name + "-sec")}}}})
		}
		if tm.ConnValue != "" {
			ct.ConnectionDetails = append(ct.ConnectionDetails, v1.ConnectionDetail{Name: ptr.To("user"), Value: ptr.To(tm.ConnValue)})
		}
		switch tm.ConnSecretKey {
		case "named":
			ct.ConnectionDetails = append(ct.ConnectionDetails, v1.ConnectionDetail{Name: ptr.To("pass"), FromConnectionSecretKey: ptr.To("password")})
		case "unnamed":
			ct.ConnectionDetails = append(ct.ConnectionDetails, v1.ConnectionDetail{FromConnectionSecretKey: ptr.To("password")})
		}
		if tm.ConnField != "" {
			ct.ConnectionDetails = append(ct.ConnectionDetails, v1.ConnectionDetail{Name: ptr.To("extra"), FromFieldPath: ptr.To(tm.ConnField)})
		}
		switch tm.Readiness {
		case "none":
			ct.ReadinessChecks = []v1.ReadinessCheck{{Type: v1.ReadinessCheckTypeNone}}
		case "phase":
			ct.ReadinessChecks = []v1.ReadinessCheck{{Type: v1.ReadinessCheckTypeMatchString, FieldPath: "status.phase", MatchString: "Ready"}}
		case "cond+phase", "phase+cond":
			// several checks: all of them must pass
			ph := v1.ReadinessCheck{Type: v1.ReadinessCheckTypeMatchString, FieldPath: "status.phase", MatchString: "Ready"}
			cd := v1.ReadinessCheck{Type: v1.ReadinessCheckTypeMatchCondition, MatchCondition: &v1.MatchConditionReadinessCheck{Type: xpv1.TypeReady, Status: "True"}}
			if tm.Readiness == "cond+phase" {
				ct.ReadinessChecks = []v1.ReadinessCheck{cd, ph}
			} else {
				ct.ReadinessChecks = []v1.ReadinessCheck{ph, cd}
			}
		}
		c.Spec.Resources = append(c.Spec.Resources, ct)
	}
	return c
}

// Object renders an XR.
func (x *XRSpec) Object() *unstructured.Unstructured {
	u := &unstructured.Unstructured{Object: map[string]any{"apiVersion": "example.org/v1", "kind": "XThing", "metadata": map[string]any{"name": x.Name}}}
	x.ApplyTo(u)
	_ = unstructured.SetNestedField(u.Object, "comp", "spec", "compositionRef", "name")
	return u
}

func anyList(s []string) []any {
	out := make([]any, 0, len(s))
	for _, x := range s {
		out = append(out, x)
	}
	return out
}

// ApplyTo writes the user-owned fields into u.
func (x *XRSpec) ApplyTo(u *unstructured.Unstructured) {
	set := func(v any, path ...string) {
		switch vv := v.(type) {
		case string:
			if vv == "" {
				unstructured.RemoveNestedField(u.Object, path...)
				return
			}
		case []any:
			if len(vv) == 0 {
				unstructured.RemoveNestedField(u.Object, path...)
				return
			}
		}
		_ = unstructured.SetNestedField(u.Object, v, path...)
	}
	set(anyList(x.Items), "spec", "items")
	set(anyList(x.Drop), "spec", "drop")
	set(anyList(x.ReadyNames), "spec", "readyNames")
	set(x.Size, "spec", "size")
	set(x.Mode, "spec", "mode")
	set(x.FatalStep, "spec", "fatalStep")
	set(x.XRReady, "spec", "xrReady")
	if x.WriteConn {
		_ = unstructured.SetNestedField(u.Object, x.Name+"-conn", "spec", "writeConnectionSecretToRef", "name")
		_ = unstructured.SetNestedField(u.Object, "default", "spec", "writeConnectionSecretToRef", "namespace")
	}
}

// Install creates functions, the composition and the XRs.
func (w *W) Install(wl *Workload) error {
	ctx := context.Background()
	for _, f := range wl.Fns {
		if err := w.InstallFunction(f); err != nil {
			return err
		}
	}
	if err := w.Direct.Create(ctx, wl.Composition()); err != nil {
		return fmt.Errorf("create composition: %w", err)
	}
	return nil
}

// CreateXRs creates the workload's XRs (the XR CRD must exist).
func (w *W) CreateXRs(wl *Workload) error {
	ctx := context.Background()
	for _, x := range wl.XRs {
		if err := w.Direct.Create(ctx, x.Object()); err != nil {
			return fmt.Errorf("create XR %s: %w", x.Name, err)
		}
	}
	return nil
}

// EditXR applies a random user edit to an XR's spec (read-modify-write; a
// conflict with a concurrent controller write is simply dropped, as kubectl
// edit would be).
func (w *W) EditXR(wl *Workload, x *XRSpec, p DrawParams, t *sim.Tape) {
	switch t.Next(6) {
	case 0, 1:
		x.Items = subset(t, wl.Pool, false)
	case 2:
		x.Size = int64(1 + t.Next(3))
	case 3:
		if p.Fatal && len(wl.Steps) > 0 {
			x.FatalStep = append([]string{""}, stepNames(wl)...)[t.Next(len(wl.Steps)+1)]
		} else {
			x.Drop = subset(t, wl.Pool, true)
		}
	case 4:
		if p.Readiness {
			x.ReadyNames = subset(t, wl.Pool, true)
			x.XRReady = []string{"", "true", "false"}[t.Next(3)]
		} else {
			x.Drop = subset(t, wl.Pool, true)
		}
	case 5:
		if p.Strict {
			x.Mode = []string{"", "fast"}[t.Next(2)]
		} else {
			x.Size = int64(1 + t.Next(3))
		}
	}
	ctx := context.Background()
	u := &unstructured.Unstructured{}
	u.SetGroupVersionKind(XRGVK)
	if err := w.Direct.Get(ctx, types.NamespacedName{Name: x.Name}, u); err != nil {
		return
	}
	x.ApplyTo(u)
	_ = w.Direct.Update(ctx, u)
}

func stepNames(wl *Workload) []string {
	var out []string
	for _, s := range wl.Steps {
		out = append(out, s.Name)
	}
	return out
}

// EditComposition toggles a template (P&T) or the fixed resource (pipeline).
func (w *W) EditComposition(wl *Workload, t *sim.Tape) {
	if wl.Pipeline {
		wl.FixedOn = !wl.FixedOn
	} else if wl.Anonymous {
		// anonymous templates are associated by position: the only edit is the
		// documented migration - the same templates, now named
		if t.Next(2) == 0 {
			wl.Anonymous = false
		}
	} else {
		i := t.Next(len(wl.Templates))
		wl.Templates[i].Enabled = !wl.Templates[i].Enabled
		any := false
		for _, tm := range wl.Templates {
			any = any || tm.Enabled
		}
		if !any {
			wl.Templates[i].Enabled = true
		}
	}
	ctx := context.Background()
	cur := &v1.Composition{}
	if err := w.Direct.Get(ctx, types.NamespacedName{Name: "comp"}, cur); err != nil {
		return
	}
	cur.Spec = wl.Composition().Spec
	_ = w.Direct.Update(ctx, cur)
}

// Describe summarises the workload for evidence samples.
func (wl *Workload) Describe() map[string]any {
	var xs []string
	for _, x := range wl.XRs {
		xs = append(xs, fmt.Sprintf("%s items=%v size=%d", x.Name, x.Items, x.Size))
	}
	sort.Strings(xs)
	d := map[string]any{"pipeline": wl.Pipeline, "xrs": xs}
	if wl.Pipeline {
		var st []string
		for _, s := range wl.Steps {
			var ops []string
			for _, o := range s.Ops {
				ops = append(ops, fmt.Sprint(o["op"]))
			}
			st = append(st, fmt.Sprintf("%s@%s%v", s.Name, s.Fn, ops))
		}
		d["steps"] = st
	} else {
		var ts []string
		for _, tm := range wl.Templates {
			ts = append(ts, fmt.Sprintf("%s:%s enabled=%v", tm.Name, tm.Kind, tm.Enabled))
		}
		d["templates"] = ts
	}
	return d
}
