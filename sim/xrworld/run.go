package xrworld

import (
	"fmt"
	"time"

	"k8s.io/apimachinery/pkg/apis/meta/v1/unstructured"
	"k8s.io/apimachinery/pkg/types"

	"github.com/crossplane/crossplane/verifsim/kit"
	"github.com/crossplane/crossplane/verifsim/runner"
	"github.com/crossplane/crossplane/verifsim/sim"
	"github.com/crossplane/crossplane/verifsim/simapi"
)

// Hooks are the property-specific parts of a run.
type Hooks struct {
	Opts    func(t *sim.Tape) Opts
	Params  DrawParams
	Faults  []sim.Outcome
	Setup   func(w *W, wl *Workload) error // after Install, before Boot
	Started func(w *W, wl *Workload)       // after Boot (controllers running)
	Env     func(w *W, wl *Workload) []sim.Action
	Observe func(w *W, wl *Workload)             // after every step
	Final   func(w *W, wl *Workload, quiet bool) // after heal
	// NoCrash disables process crashes (properties whose quantifier has none).
	MaxChaos   int
	HealRounds int
	NoXRs      bool // the world's XRs come from claims only
	// BootOptional: the world may legitimately fail to start its dynamic
	// controllers (a property places an obstacle before boot).
	BootOptional bool
}

// Run is the generic W-xr / W-claim run.
func Run(s *sim.Sim, res *runner.Result, h Hooks) {
	t := s.Tape
	o := Opts{}
	if h.Opts != nil {
		o = h.Opts(t)
	}
	wl := Draw(t, h.Params)
	if h.NoXRs {
		wl.XRs = nil
	}
	max := h.MaxChaos
	if max == 0 {
		max = 160
	}
	chaos := 30 + t.Next(max)
	kit.DrawFaults(s, h.Faults)
	res.Workload = wl.Describe()
	w, err := New(s, res, o)
	if err != nil {
		res.Trouble = err.Error()
		return
	}
	defer func() {
		w.CloseConnections()
		s.Shutdown(w.Core)
	}()
	if err := w.Install(wl); err != nil {
		res.Trouble = err.Error()
		return
	}
	if h.Setup != nil {
		if err := h.Setup(w, wl); err != nil {
			res.Trouble = err.Error()
			return
		}
	}
	if !w.Boot() && !h.BootOptional {
		res.Trouble = "world did not boot (XRD controllers did not start the XR controller)"
		return
	}
	if !h.NoXRs && w.Store.Kind(XRGVK.GroupKind()) != nil {
		if err := w.CreateXRs(wl); err != nil {
			res.Trouble = err.Error()
			return
		}
	}
	if h.Started != nil {
		h.Started(w, wl)
	}
	if h.Observe != nil {
		h.Observe(w, wl)
	}
	s.Phase = "chaos"
	for i := 0; i < chaos && len(s.Violations) == 0; i++ {
		acts := w.ReconcileActions()
		if w.Core.Dead {
			acts = append(acts, sim.Action{Key: "restart core", Weight: 40, Run: w.RestartCore})
		}
		for _, x := range wl.XRs {
			x := x
			acts = append(acts, sim.Action{Key: "edit xr " + x.Name, Weight: 5, Run: func() { w.EditXR(wl, x, h.Params, t) }})
		}
		acts = append(acts, sim.Action{Key: "edit composition", Weight: 2, Run: func() { w.EditComposition(wl, t) }})
		acts = append(acts, sim.Action{Key: "advance 1s", Weight: 1, Run: func() { s.Advance(time.Second) }})
		if h.Env != nil {
			acts = append(acts, h.Env(w, wl)...)
		}
		acts = append(acts, w.SleeperActions()...)
		if w.View != nil && w.View.Manual && w.View.Behind(w.Store.Seq()) {
			acts = append(acts, sim.Action{Key: "informer cache catches up", Weight: 2, Run: func() { w.View.CatchUp(w.Store.Seq()) }})
		}
		if !s.StepOnce(acts, 30) {
			break
		}
		if h.Observe != nil {
			h.Observe(w, wl)
		}
	}
	s.Phase = "heal"
	if w.Core.Dead {
		w.RestartCore()
	}
	rounds := h.HealRounds
	if rounds == 0 {
		rounds = 12
	}
	if w.View != nil {
		w.View.Manual = false
	}
	quiet := w.Heal(rounds, func() {
		if h.Observe != nil {
			h.Observe(w, wl)
		}
	})
	if h.Observe != nil {
		h.Observe(w, wl)
	}
	if h.Final != nil && len(s.Violations) == 0 {
		s.Phase = "probe"
		h.Final(w, wl, quiet)
	} else if !quiet {
		res.Inconclusive = "no-quiescence"
	}
	res.StateHashes = append(res.StateHashes, w.Store.StateHash())
}

// Composed describes a composed resource found in the store.
type Composed struct {
	Key      simapi.ObjKey
	Obj      *unstructured.Unstructured
	ResName  string
	OwnerUID types.UID
}

// ComposedObjects lists the objects of composed kinds that carry the
// composition-resource-name annotation, with their controller UID.
func (w *W) ComposedObjects() []Composed {
	var out []Composed
	for _, gvk := range ComposedGVKs {
		for _, k := range w.Store.KeysOf(gvk.GroupKind()) {
			u := &unstructured.Unstructured{Object: w.Store.Peek(k)}
			rn := u.GetAnnotations()["crossplane.io/composition-resource-name"]
			if rn == "" {
				continue
			}
			c := Composed{Key: k, Obj: u, ResName: rn}
			for _, o := range u.GetOwnerReferences() {
				if o.Controller != nil && *o.Controller {
					c.OwnerUID = o.UID
				}
			}
			out = append(out, c)
		}
	}
	return out
}

// XRObjects returns the XRs in the store.
func (w *W) XRObjects() []*unstructured.Unstructured {
	var out []*unstructured.Unstructured
	for _, k := range w.Store.KeysOf(XRGVK.GroupKind()) {
		out = append(out, &unstructured.Unstructured{Object: w.Store.Peek(k)})
	}
	return out
}

// Refs returns the spec.resourceRefs of an XR as "apiVersion/kind/name" strings.
func Refs(xr *unstructured.Unstructured) map[string]bool {
	out := map[string]bool{}
	refs, _, _ := unstructured.NestedSlice(xr.Object, "spec", "resourceRefs")
	for _, r := range refs {
		m, _ := r.(map[string]any)
		out[fmt.Sprintf("%v/%v/%v", m["apiVersion"], m["kind"], m["name"])] = true
	}
	return out
}

// RefOf returns the reference string of an object.
func RefOf(u *unstructured.Unstructured) string {
	return fmt.Sprintf("%s/%s/%s", u.GetAPIVersion(), u.GetKind(), u.GetName())
}
