// Package xrworld assembles W-xr / W-claim (DESIGN.md §6): the real XRD
// controllers (definition, offered) which build the real XR and claim
// reconcilers, the real revision controller, the real PackagedFunctionRunner
// with scripted functions behind the interceptor seam — on the simulated API
// server.
package xrworld

import (
	"context"
	"fmt"
	"strings"
	"time"

	extv1 "k8s.io/apiextensions-apiserver/pkg/apis/apiextensions/v1"
	metav1 "k8s.io/apimachinery/pkg/apis/meta/v1"
	"k8s.io/apimachinery/pkg/apis/meta/v1/unstructured"
	kruntime "k8s.io/apimachinery/pkg/runtime"
	"k8s.io/apimachinery/pkg/runtime/schema"
	"k8s.io/apimachinery/pkg/types"
	"k8s.io/utils/ptr"
	"sigs.k8s.io/controller-runtime/pkg/client"
	"sigs.k8s.io/controller-runtime/pkg/reconcile"

	xpcontroller "github.com/crossplane/crossplane-runtime/pkg/controller"
	"github.com/crossplane/crossplane-runtime/pkg/event"
	"github.com/crossplane/crossplane-runtime/pkg/feature"
	"github.com/crossplane/crossplane-runtime/pkg/logging"
	"github.com/crossplane/crossplane-runtime/pkg/ratelimiter"
	xpunstructured "github.com/crossplane/crossplane-runtime/pkg/resource/unstructured"

	v1 "github.com/crossplane/crossplane/apis/apiextensions/v1"
	pkgv1 "github.com/crossplane/crossplane/apis/pkg/v1"
	"github.com/crossplane/crossplane/internal/controller/apiextensions/composition"
	apiextensionscontroller "github.com/crossplane/crossplane/internal/controller/apiextensions/controller"
	"github.com/crossplane/crossplane/internal/controller/apiextensions/definition"
	"github.com/crossplane/crossplane/internal/controller/apiextensions/offered"
	"github.com/crossplane/crossplane/internal/engine"
	"github.com/crossplane/crossplane/internal/features"
	"github.com/crossplane/crossplane/internal/xfn"

	"github.com/crossplane/crossplane/verifsim/kit"
	"github.com/crossplane/crossplane/verifsim/runner"
	"github.com/crossplane/crossplane/verifsim/sim"
	"github.com/crossplane/crossplane/verifsim/simapi"
	"github.com/crossplane/crossplane/verifsim/simfn"
)

// Well-known kinds of the world.
var (
	XRDName   = "xthings.example.org"
	XRGVK     = schema.GroupVersionKind{Group: "example.org", Version: "v1", Kind: "XThing"}
	ClaimGVK  = schema.GroupVersionKind{Group: "example.org", Version: "v1", Kind: "ThingClaim"}
	ThingGVK  = schema.GroupVersionKind{Group: "things.example.org", Version: "v1", Kind: "Thing"}
	GadgetGVK = schema.GroupVersionKind{Group: "things.example.org", Version: "v1", Kind: "Gadget"}
	StrictGVK = schema.GroupVersionKind{Group: "things.example.org", Version: "v1", Kind: "Strict"}
	ExtraGVK  = schema.GroupVersionKind{Group: "things.example.org", Version: "v1", Kind: "Extra"}
	CompGVK   = v1.CompositionGroupVersionKind
	RevGVK    = v1.CompositionRevisionGroupVersionKind
	XRDGVK    = v1.CompositeResourceDefinitionGroupVersionKind
	SecretGVK = schema.GroupVersionKind{Version: "v1", Kind: "Secret"}
)

// ComposedGVKs lists the kinds compositions of this world compose.
var ComposedGVKs = []schema.GroupVersionKind{ThingGVK, GadgetGVK, StrictGVK}

// Event is a recorded Kubernetes event.
type Event struct {
	Step    int
	TaskID  int
	Kind    string
	Name    string
	Type    string
	Reason  string
	Message string
}

// Opts configures the world.
type Opts struct {
	Claims                bool // XRD offers a claim; offered + claim controllers run
	SSAClaims             bool // EnableBetaClaimSSA
	Realtime              bool
	ConnKeys              []string // XRD connectionSecretKeys
	FnFaults              bool
	LagClaims             bool // claim controller's cache may serve stale claims
	LagComposed           bool // the engine cache may serve stale composed resources
	LagManual             bool // ... and lags until the environment lets it catch up (instead of per read)
	LagXRs                bool // the cache may serve stale XRs (to the claim controller as well)
	DefaultCompositionRef bool
}

// W is the world.
type W struct {
	kit.World
	Opts   Opts
	Direct *simapi.Client // harness/user client: no yields, no faults
	Core   *sim.Proc
	Fn     *simfn.Transport
	Runner *xfn.PackagedFunctionRunner
	Engine *SimEngine
	Events []Event
	View   *simapi.View // the lagging cache view of the current core process, if any
	// Stops records SimEngine.Stop calls (controller name, step).
	EngineLog []string
	// hooks for property oracles
	// EndpointPending: the next function revision added gets no endpoint (yet)
	EndpointPending bool
	OnXRDone        func(key types.NamespacedName, t *sim.Task, startSeq int, res reconcile.Result, err error)
	OnClaimDone     func(key types.NamespacedName, t *sim.Task, startSeq int, res reconcile.Result, err error)
	OnStart         func(ctrl string, key types.NamespacedName, t *sim.Task)
	OnEngineStop    func(name string)
	OnFnTransport   func(*simfn.Transport)
	runners         []*xfn.PackagedFunctionRunner
}

// recorder implements event.Recorder.
type recorder struct {
	w *W
}

func (r recorder) Event(obj kruntime.Object, e event.Event) {
	ev := Event{Step: r.w.S.Step, TaskID: r.w.S.CurrentTaskID(), Type: string(e.Type), Reason: string(e.Reason), Message: e.Message}
	if o, ok := obj.(metav1.Object); ok {
		ev.Name = o.GetName()
	}
	if obj != nil {
		ev.Kind = obj.GetObjectKind().GroupVersionKind().Kind
	}
	r.w.Events = append(r.w.Events, ev)
}

func (r recorder) WithAnnotations(...string) event.Recorder { return r }

// SimEngine implements definition.ControllerEngine and offered.ControllerEngine.
type SimEngine struct {
	w        *W
	cached   client.Client
	uncached client.Client
	idx      *simapi.Indexers
	running  map[string]*kit.Controller
	watches  map[string][]engine.WatchID
}

func (e *SimEngine) kindFor(name string) (schema.GroupKind, bool) {
	// "composite/<xrd>" or "claim/<xrd>"
	parts := strings.SplitN(name, "/", 2)
	if len(parts) != 2 {
		return schema.GroupKind{}, false
	}
	m := e.w.Store.Peek(simapi.ObjKey{Group: XRDGVK.Group, Kind: XRDGVK.Kind, Name: parts[1]})
	if m == nil {
		return schema.GroupKind{}, false
	}
	g, _, _ := unstructured.NestedString(m, "spec", "group")
	if parts[0] == "claim" {
		k, _, _ := unstructured.NestedString(m, "spec", "claimNames", "kind")
		return schema.GroupKind{Group: g, Kind: k}, true
	}
	k, _, _ := unstructured.NestedString(m, "spec", "names", "kind")
	return schema.GroupKind{Group: g, Kind: k}, true
}

// Start registers the reconciler the XRD controller built.
func (e *SimEngine) Start(name string, o ...engine.ControllerOption) error {
	if _, ok := e.running[name]; ok {
		return nil
	}
	ko := engine.VerifRuntimeOptions(o...)
	gk, ok := e.kindFor(name)
	if !ok {
		return fmt.Errorf("simengine: cannot determine kind for controller %q", name)
	}
	w := e.w
	c := &kit.Controller{Name: name, Proc: w.Core, Reconcile: ko.Reconciler.Reconcile, Keys: kit.KeysOfKind(w.Store, gk), Weight: 25}
	starts := map[types.NamespacedName]int{}
	c.OnStart = func(k types.NamespacedName, t *sim.Task) {
		starts[k] = w.Store.Seq()
		if w.OnStart != nil {
			w.OnStart(name, k, t)
		}
	}
	isClaim := strings.HasPrefix(name, "claim/")
	c.OnDone = func(k types.NamespacedName, t *sim.Task, res reconcile.Result, err error) {
		if isClaim {
			if w.OnClaimDone != nil {
				w.OnClaimDone(k, t, starts[k], res, err)
			}
		} else if w.OnXRDone != nil {
			w.OnXRDone(k, t, starts[k], res, err)
		}
	}
	e.running[name] = c
	w.Ctrls = append(w.Ctrls, c)
	w.EngineLog = append(w.EngineLog, fmt.Sprintf("%d start %s", w.S.Step, name))
	w.S.Logf("  engine start %s", name)
	return nil
}

// Stop stops a controller: no new reconciles start.
func (e *SimEngine) Stop(_ context.Context, name string) error {
	c, ok := e.running[name]
	if !ok {
		return nil
	}
	delete(e.running, name)
	delete(e.watches, name)
	c.Disabled = true
	w := e.w
	for i, x := range w.Ctrls {
		if x == c {
			w.Ctrls = append(w.Ctrls[:i:i], w.Ctrls[i+1:]...)
			break
		}
	}
	w.EngineLog = append(w.EngineLog, fmt.Sprintf("%d stop %s", w.S.Step, name))
	w.S.Logf("  engine stop %s", name)
	if w.OnEngineStop != nil {
		w.OnEngineStop(name)
	}
	return nil
}

// IsRunning reports whether the named controller runs.
func (e *SimEngine) IsRunning(name string) bool { _, ok := e.running[name]; return ok }

// GetWatches returns the recorded watches.
func (e *SimEngine) GetWatches(name string) ([]engine.WatchID, error) { return e.watches[name], nil }

// StartWatches records watches (triggers are over-approximated by the scheduler).
func (e *SimEngine) StartWatches(name string, ws ...engine.Watch) error {
	if _, ok := e.running[name]; !ok {
		return fmt.Errorf("controller %q is not running", name)
	}
	for _, w := range ws {
		gvk := w.VerifKind().GetObjectKind().GroupVersionKind()
		id := engine.WatchID{Type: w.VerifType(), GVK: gvk}
		dup := false
		for _, x := range e.watches[name] {
			if x == id {
				dup = true
			}
		}
		if !dup {
			e.watches[name] = append(e.watches[name], id)
		}
	}
	return nil
}

// StopWatches forgets watches.
func (e *SimEngine) StopWatches(_ context.Context, name string, ws ...engine.WatchID) (int, error) {
	n := 0
	var keep []engine.WatchID
	for _, x := range e.watches[name] {
		stop := false
		for _, w := range ws {
			if w == x {
				stop = true
			}
		}
		if stop {
			n++
		} else {
			keep = append(keep, x)
		}
	}
	e.watches[name] = keep
	return n, nil
}

// GetCached returns the engine's cached client.
func (e *SimEngine) GetCached() client.Client { return e.cached }

// GetUncached returns the engine's uncached client.
func (e *SimEngine) GetUncached() client.Client { return e.uncached }

// GetFieldIndexer returns the engine's field indexer.
func (e *SimEngine) GetFieldIndexer() client.FieldIndexer { return e.idx }

// XRD returns the XRD of the world.
func XRD(o Opts) *v1.CompositeResourceDefinition {
	d := &v1.CompositeResourceDefinition{
		ObjectMeta: metav1.ObjectMeta{Name: XRDName},
		Spec: v1.CompositeResourceDefinitionSpec{
			Group: "example.org",
			Names: extv1.CustomResourceDefinitionNames{Kind: "XThing", Plural: "xthings", ListKind: "XThingList", Singular: "xthing"},
			Versions: []v1.CompositeResourceDefinitionVersion{{
				Name: "v1", Served: true, Referenceable: true,
				Schema: &v1.CompositeResourceValidation{OpenAPIV3Schema: kruntime.RawExtension{Raw: []byte(xrSchema)}},
			}},
			ConnectionSecretKeys: o.ConnKeys,
		},
	}
	if o.Claims {
		d.Spec.ClaimNames = &extv1.CustomResourceDefinitionNames{Kind: "ThingClaim", Plural: "thingclaims", ListKind: "ThingClaimList", Singular: "thingclaim"}
	}
	if o.DefaultCompositionRef {
		d.Spec.DefaultCompositionRef = &v1.CompositionReference{Name: "comp"}
	}
	return d
}

const xrSchema = `{"type":"object","properties":{
 "spec":{"type":"object","properties":{
   "size":{"type":"integer"},"mode":{"type":"string"},"fatalStep":{"type":"string"},"xrReady":{"type":"string"},
   "items":{"type":"array","items":{"type":"string"}},
   "drop":{"type":"array","items":{"type":"string"}},
   "readyNames":{"type":"array","items":{"type":"string"}},
   "nested":{"type":"object","x-kubernetes-preserve-unknown-fields":true},
   "user":{"type":"string"}}},
 "status":{"type":"object","properties":{
   "seen":{"type":"integer"},"extras":{"type":"string"},"note":{"type":"string"},
   "nested":{"type":"object","x-kubernetes-preserve-unknown-fields":true}}}}}`

func composedCRD(gvk schema.GroupVersionKind, plural string, requireMode bool) *extv1.CustomResourceDefinition {
	spec := extv1.JSONSchemaProps{Type: "object", XPreserveUnknownFields: ptr.To(true), Properties: map[string]extv1.JSONSchemaProps{
		"tag": {Type: "string"}, "size": {Type: "integer"}, "mode": {Type: "string"}, "next": {Type: "string"},
	}}
	if requireMode {
		spec.Required = []string{"mode"}
	}
	return &extv1.CustomResourceDefinition{
		ObjectMeta: metav1.ObjectMeta{Name: plural + "." + gvk.Group},
		Spec: extv1.CustomResourceDefinitionSpec{
			Group: gvk.Group, Scope: extv1.ClusterScoped,
			Names: extv1.CustomResourceDefinitionNames{Kind: gvk.Kind, Plural: plural, ListKind: gvk.Kind + "List", Singular: strings.ToLower(gvk.Kind)},
			Versions: []extv1.CustomResourceDefinitionVersion{{Name: gvk.Version, Served: true, Storage: true,
				Subresources: &extv1.CustomResourceSubresources{Status: &extv1.CustomResourceSubresourceStatus{}},
				Schema: &extv1.CustomResourceValidation{OpenAPIV3Schema: &extv1.JSONSchemaProps{Type: "object", Properties: map[string]extv1.JSONSchemaProps{
					"spec":   spec,
					"status": {Type: "object", XPreserveUnknownFields: ptr.To(true)},
				}}}}},
		},
	}
}

// New builds the world: store, kinds, processes. Call inside the bubble.
func New(s *sim.Sim, res *runner.Result, o Opts) (*W, error) {
	w := &W{Opts: o}
	w.S, w.Res = s, res
	w.Store = simapi.NewStore(kit.Scheme())
	if err := kit.ServeCore(w.Store); err != nil {
		return nil, err
	}
	kit.HookLog(s, w.Store)
	kit.SeedNames(s)
	w.Direct = simapi.NewClient(w.Store, nil, nil, "user")
	w.Core = s.NewProc("core")
	ctx := context.Background()
	for _, c := range []*extv1.CustomResourceDefinition{
		composedCRD(ThingGVK, "things", false), composedCRD(GadgetGVK, "gadgets", false),
		composedCRD(StrictGVK, "stricts", true), composedCRD(ExtraGVK, "extras", false),
	} {
		if err := w.Direct.Create(ctx, c); err != nil {
			return nil, fmt.Errorf("create CRD %s: %w", c.Name, err)
		}
	}
	if err := w.Direct.Create(ctx, XRD(o)); err != nil {
		return nil, fmt.Errorf("create XRD: %w", err)
	}
	w.NewProcess()
	return w, nil
}

// InstallFunction creates a Function and its active revision with an endpoint.
func (w *W) InstallFunction(name string) error {
	ctx := context.Background()
	if err := w.Direct.Create(ctx, &pkgv1.Function{ObjectMeta: metav1.ObjectMeta{Name: name}, Spec: pkgv1.FunctionSpec{PackageSpec: pkgv1.PackageSpec{Package: "xpkg.example.org/" + name + ":v1"}}}); err != nil {
		return err
	}
	return w.AddFunctionRevision(name, 1, true)
}

// AddFunctionRevision creates revision n of a function.
func (w *W) AddFunctionRevision(name string, n int, active bool) error {
	ctx := context.Background()
	st := pkgv1.PackageRevisionInactive
	if active {
		st = pkgv1.PackageRevisionActive
	}
	rev := &pkgv1.FunctionRevision{ObjectMeta: metav1.ObjectMeta{Name: fmt.Sprintf("%s-r%d", name, n), Labels: map[string]string{pkgv1.LabelParentPackage: name}},
		Spec: pkgv1.FunctionRevisionSpec{PackageRevisionSpec: pkgv1.PackageRevisionSpec{DesiredState: st, Package: "xpkg.example.org/" + name + ":v1", Revision: int64(n)}}}
	if err := w.Direct.Create(ctx, rev); err != nil {
		return err
	}
	if w.EndpointPending {
		// the package manager has not recorded the new revision's endpoint yet
		w.EndpointPending = false
		return nil
	}
	rev.Status.Endpoint = fmt.Sprintf("dns:///%s-r%d.crossplane-system:9443", name, n)
	return w.Direct.Status().Update(ctx, rev)
}

// NewProcess builds fresh controllers, caches and connections for the core
// process (start, or restart after a crash).
func (w *W) NewProcess() {
	s := w.S
	w.Ctrls = nil
	w.Fn = &simfn.Transport{Sim: s, Proc: w.Core, BetaOnly: map[string]bool{}, Faults: w.Opts.FnFaults, LogSeq: w.Store.Seq}
	if w.OnFnTransport != nil {
		w.OnFnTransport(w.Fn)
	}
	idx := simapi.NewIndexers()
	mgrClient := simapi.NewClient(w.Store, s, w.Core, "core").WithIndexers(idx)
	engClient := simapi.NewClient(w.Store, s, w.Core, "core").WithIndexers(idx)
	var cached client.Client = engClient
	var lag []schema.GroupKind
	if w.Opts.LagClaims && w.Opts.Claims {
		lag = append(lag, ClaimGVK.GroupKind())
	}
	if w.Opts.LagXRs {
		lag = append(lag, XRGVK.GroupKind())
	}
	if w.Opts.LagComposed {
		for _, g := range ComposedGVKs {
			lag = append(lag, g.GroupKind())
		}
	}
	if len(lag) > 0 {
		w.View = simapi.NewView(lag...)
		w.View.Manual = w.Opts.LagManual
		w.View.CatchUp(w.Store.Seq())
		cached = engClient.Cached(w.View)
	}
	w.Runner = xfn.NewPackagedFunctionRunner(mgrClient, xfn.WithInterceptorCreators(w.Fn))
	w.runners = append(w.runners, w.Runner)
	w.Engine = &SimEngine{w: w, cached: xpunstructured.NewClient(cached), uncached: xpunstructured.NewClient(engClient), idx: idx,
		running: map[string]*kit.Controller{}, watches: map[string][]engine.WatchID{}}
	flags := &feature.Flags{}
	if w.Opts.SSAClaims {
		flags.Enable(features.EnableBetaClaimSSA)
	}
	if w.Opts.Realtime {
		flags.Enable(features.EnableAlphaRealtimeCompositions)
	}
	ao := apiextensionscontroller.Options{
		Options: xpcontroller.Options{Logger: logging.NewNopLogger(), GlobalRateLimiter: ratelimiter.NewGlobal(1000000000), PollInterval: time.Minute,
			MaxConcurrentReconciles: 2, Features: flags},
		FunctionRunner: w.Runner,
	}
	rec := recorder{w}
	def := definition.NewReconciler(definition.NewClientApplicator(mgrClient),
		definition.WithControllerEngine(w.Engine), definition.WithOptions(ao), definition.WithRecorder(rec))
	w.Ctrls = append(w.Ctrls, &kit.Controller{Name: "xrd-definition", Proc: w.Core, Reconcile: def.Reconcile, Keys: kit.KeysOfKind(w.Store, XRDGVK.GroupKind()), Weight: 12})
	if w.Opts.Claims {
		off := offered.NewReconciler(offered.NewClientApplicator(mgrClient),
			offered.WithControllerEngine(w.Engine), offered.WithOptions(ao), offered.WithRecorder(rec))
		w.Ctrls = append(w.Ctrls, &kit.Controller{Name: "xrd-offered", Proc: w.Core, Reconcile: off.Reconcile, Keys: kit.KeysOfKind(w.Store, XRDGVK.GroupKind()), Weight: 12})
	}
	revs := composition.NewReconciler(kit.Mgr{C: mgrClient, S: w.Store.Scheme}, composition.WithRecorder(rec))
	w.Ctrls = append(w.Ctrls, &kit.Controller{Name: "revisions", Proc: w.Core, Reconcile: revs.Reconcile, Keys: kit.KeysOfKind(w.Store, CompGVK.GroupKind()), Weight: 8})
}

// Bring the world to a running state without faults: XRD established, controllers started.
func (w *W) Boot() bool {
	for i := 0; i < 6; i++ {
		for _, c := range append([]*kit.Controller(nil), w.Ctrls...) {
			if c.Name == "xrd-definition" || c.Name == "xrd-offered" || c.Name == "revisions" {
				for _, k := range c.Keys() {
					if !w.RunOne(c, k, 3000) {
						return false
					}
				}
			}
		}
		if w.Engine.IsRunning("composite/"+XRDName) && (!w.Opts.Claims || w.Engine.IsRunning("claim/"+XRDName)) {
			return true
		}
	}
	return false
}

// CloseConnections closes the gRPC client connections of every function runner
// so the bubble can end.
func (w *W) CloseConnections() {
	ctx := context.Background()
	l := &pkgv1.FunctionList{}
	_ = w.Direct.List(ctx, l)
	for i := range l.Items {
		_ = w.Direct.Delete(ctx, &l.Items[i])
	}
	for _, r := range w.runners {
		_, _ = r.GarbageCollectConnectionsNow(sim.WithNoYield(ctx))
	}
}

// RestartCore restarts the crashed core process.
func (w *W) RestartCore() {
	w.S.Restart(w.Core)
	w.NewProcess()
}

// RealComponents / StubComponents are the evidence table of W-xr / W-claim.
var RealComponents = []string{
	"definition.Reconciler and offered.Reconciler (XRD controllers; they build the XR/claim reconcilers through their own options)",
	"composite.Reconciler, FunctionComposer, PTComposer, FetchingFunctionRunner, ExistingExtraResourcesFetcher, ExistingComposedResourceObserver, connection publishers/fetchers",
	"claim.Reconciler with both syncers, connection propagator, managed-fields upgrader (W-claim)",
	"composition.Reconciler (revisions), xfn.PackagedFunctionRunner + BetaFallBack client, names.NameGenerator, crossplane-runtime applicators/finalizers, ratelimiter and WithSilentRequeueOnConflict wrappers",
	"xcrd.ForCompositeResource / ForCompositeResourceClaim (served CRDs), cluster/crds/*.yaml",
}

var StubComponents = []string{
	"Kubernetes API server, garbage collector and CRD controller (simapi)",
	"controller engine (SimEngine records Start/Stop/watches; the scheduler decides when reconciles start)",
	"composition functions (scripted programs answered at the gRPC interceptor seam; no socket is dialled)",
	"event recorder (appends to the run's event list)",
}
