// Package simfs is the simulated disk (DESIGN.md §1): an afero.Fs over an
// in-memory filesystem with a per-task fault plan: error on create/open/
// read/write/remove, short write, ENOSPC at byte n, process crash at an
// operation (the file keeps the prefix written so far). Corruption and
// truncation of stored files are environment actions of the world.
package simfs

import (
	"fmt"
	"os"
	"syscall"
	"time"

	"github.com/spf13/afero"
)

// Plan is the fault plan for the disk operations of one task.
type Plan struct {
	FailAt int    // the FailAt-th operation (0-based) is faulted; <0: none
	Kind   string // "err" | "short" | "enospc" | "crash"
	n      int
}

// Fs wraps an afero.Fs.
type Fs struct {
	afero.Fs
	Plan *Plan
	// Crash is called for a "crash" fault: it marks the process dead (it must
	// return: goroutines of the code under test that are blocked on each other,
	// not on a seam, cannot be killed; they reach a seam and end there).
	Crash func()
	// Dead reports whether the process is dead: its disk operations then fail
	// without any effect.
	Dead  func() bool
	Fired map[string]int
	Ops   int
}

// New wraps base.
func New(base afero.Fs) *Fs { return &Fs{Fs: base, Fired: map[string]int{}} }

// SetPlan installs the plan for the next task.
func (f *Fs) SetPlan(failAt int, kind string) { f.Plan = &Plan{FailAt: failAt, Kind: kind} }

// fault decides whether the current operation is faulted.
func (f *Fs) fault(op string) string {
	f.Ops++
	if f.Dead != nil && f.Dead() {
		return "dead"
	}
	p := f.Plan
	if p == nil || p.FailAt < 0 {
		return ""
	}
	i := p.n
	p.n++
	if i != p.FailAt {
		return ""
	}
	f.Fired["disk-"+p.Kind]++
	if p.Kind == "crash" && op != "write" && f.Crash != nil {
		f.Crash()
	}
	return p.Kind
}

var errIO = &os.PathError{Op: "simfs", Path: "", Err: syscall.EIO}

// Create implements afero.Fs.
func (f *Fs) Create(name string) (afero.File, error) {
	if k := f.fault("create"); k != "" {
		return nil, &os.PathError{Op: "create", Path: name, Err: syscall.EIO}
	}
	file, err := f.Fs.Create(name)
	if err != nil {
		return nil, err
	}
	return &File{File: file, fs: f}, nil
}

// Open implements afero.Fs.
func (f *Fs) Open(name string) (afero.File, error) {
	if k := f.fault("open"); k != "" {
		return nil, &os.PathError{Op: "open", Path: name, Err: syscall.EIO}
	}
	file, err := f.Fs.Open(name)
	if err != nil {
		return nil, err
	}
	return &File{File: file, fs: f}, nil
}

// OpenFile implements afero.Fs.
func (f *Fs) OpenFile(name string, flag int, perm os.FileMode) (afero.File, error) {
	if k := f.fault("open"); k != "" {
		return nil, &os.PathError{Op: "open", Path: name, Err: syscall.EIO}
	}
	file, err := f.Fs.OpenFile(name, flag, perm)
	if err != nil {
		return nil, err
	}
	return &File{File: file, fs: f}, nil
}

// Remove implements afero.Fs.
func (f *Fs) Remove(name string) error {
	if k := f.fault("remove"); k != "" {
		return &os.PathError{Op: "remove", Path: name, Err: syscall.EIO}
	}
	return f.Fs.Remove(name)
}

// Stat implements afero.Fs (never faulted: FsPackageCache.Has cannot report errors).
func (f *Fs) Stat(name string) (os.FileInfo, error) { return f.Fs.Stat(name) }

// Chtimes etc. fall through to the embedded Fs.
func (f *Fs) Chtimes(name string, a, m time.Time) error { return f.Fs.Chtimes(name, a, m) }

// File wraps an afero.File.
type File struct {
	afero.File
	fs *Fs
}

// Write implements io.Writer.
func (f *File) Write(p []byte) (int, error) {
	switch f.fs.fault("write") {
	case "err":
		return 0, fmt.Errorf("write %s: %w", f.Name(), syscall.EIO)
	case "short":
		n := len(p) / 2
		m, _ := f.File.Write(p[:n])
		return m, fmt.Errorf("write %s: short write", f.Name())
	case "dead":
		return 0, fmt.Errorf("write %s: %w", f.Name(), syscall.EIO)
	case "crash":
		// torn write: a prefix reaches the disk, then the process dies
		_, _ = f.File.Write(p[:len(p)/2])
		if f.fs.Crash != nil {
			f.fs.Crash()
		}
		return 0, fmt.Errorf("write %s: %w", f.Name(), syscall.EIO)
	case "enospc":
		n := len(p) / 3
		m, _ := f.File.Write(p[:n])
		return m, fmt.Errorf("write %s: %w", f.Name(), syscall.ENOSPC)
	}
	return f.File.Write(p)
}

// Read implements io.Reader.
func (f *File) Read(p []byte) (int, error) {
	if k := f.fs.fault("read"); k != "" {
		return 0, fmt.Errorf("read %s: %w", f.Name(), syscall.EIO)
	}
	return f.File.Read(p)
}

// Close implements io.Closer.
func (f *File) Close() error {
	if k := f.fs.fault("close"); k == "err" || k == "dead" {
		_ = f.File.Close()
		return fmt.Errorf("close %s: %w", f.Name(), syscall.EIO)
	}
	return f.File.Close()
}

var _ = errIO
